"""C09 Harmonic transforms follow the volume convention and all backends agree.

Mode P (configuration enumeration + basis enumeration).  Five case families (the fifth, `config`, drives
nifty.config.update with every documented spelling of the convention and checks the effect behaviourally):

  op       FFTOperator / HartleyOperator / HarmonicTransformOperator on every regular grid of the shape
           alphabet x {default, scalar, per-axis generic} distances x {position, harmonic} domain x every
           placement of the transformed space inside a product domain x both `hartley_convention` values
           x {default, explicit} target.  All four modes are applied to the complete real + imaginary unit
           basis and compared with the explicit O(N^2) matrix  M = dvol(domain space) * T  built from the
           definition (vf/ref/c09_ref.py), its Hermitian transpose, its inverse and the inverse's Hermitian
           transpose.  Zero mode of the transform of a one-hot = its volume element, zero mode of a generic
           field = its integral (numpy and Field.integrate).  Output dtype rules as documented.
  backend  raw arrays: ducc_dispatch.{fftn, ifftn, hartley} vs ducc_dispatch._scipy_{fftn, ifftn, hartley}
           vs nifty.re.correlated_field.hartley (eager and jitted) vs the explicit matrices, for every shape,
           every non-empty axes subset (and axes=None), both conventions, on the complete unit basis.
  smooth   HarmonicSmoothingOperator(sigma): equals the harmonic-definition circulant matrix to round-off,
           equals the position-space convolution with the sampled periodised Gaussian of std sigma within
           the explicitly summed alias bound, conserves the integral, is the same under both conventions,
           sigma = 0 gives the identity.
  sht      SHTOperator / HarmonicTransformOperator on LMSpace(lmax, mmax) -> GL / HEALPix vs
           scipy.special.sph_harm_y at independently computed pixel centres with the documented
           1/sqrt(4 pi) normalisation; ADJOINT = transpose; the integral of the synthesised map over the
           sphere (exact GL quadrature) is the monopole coefficient.
"""
import itertools

import numpy as np

from vf.core import ok, bad, skip

ID = "C09"
LEVEL = "exploration"
JAX = True
RULE = ("case = (family, grid shape, distances choice, harmonic flag, placement of the transformed space in a "
        "product domain, hartley_convention, target choice | raw-array shape, axes subset, backend function | "
        "smoothing sigma | lmax, mmax, sphere pixelisation); every case applies the code to the COMPLETE real and "
        "imaginary unit basis (exact matrix) in every advertised mode; non-trivial = the matrix is non-empty and was "
        "compared with the explicit definition matrix (op/sht), at least two genuinely different backends were "
        "compared (backend), or sigma > 0 and the position-space Gaussian comparison was sharper than 1e-2 (smooth)")
ASSUMPTIONS = [
    "grids are tiny (<= 60 pixels in the transformed space, <= 120 in the product domain); lmax <= 4; float64/complex128 only; no GPU (cupy/vkfft) branches",
    "distances are alphabet values (library default, one scalar, one seed-dependent per-axis tuple); structure (shape, axes, placement, mode, convention) is exhaustive over the stated alphabets",
    "Hartley conventions by definition: canonical = sum x cas(+phi) = Re F - Im F (ducc genuine_fht, the DHT of the literature), non-canonical = Re F + Im F (NIFTy default)",
    "raw Hartley backends are compared on real input only (ducc rejects complex input; HartleyOperator documents the split into real and imaginary part, which is checked at operator level)",
    "tolerance 1e-12 relative to the largest entry of the expected matrix (SHT 1e-10); Gaussian position-space comparison at the explicitly summed alias defect + 1e-12",
    "SHT normalisation as documented in docs/source/user/nifty_cl_volume.rst (HEALPix convention divided by sqrt(4 pi)); pixel centres and GL weights computed independently (numpy leggauss, Gorski et al. formulas)",
    "the global hartley_convention is switched through nifty.config.update inside the worker and restored afterwards; compiled JAX programs that captured the convention at trace time are outside the scope",
]

TOL = 1e-12
CONVS = ("non_canonical_hartley", "canonical_hartley")
MODE_BITS = (("TIMES", 1), ("ADJOINT", 2), ("INVERSE", 4), ("ADJOINT_INVERSE", 8))


# ===================================================================================== case space
def shapes(tier, maxdim=3):
    if tier == "quick":
        alph = {1: range(1, 6), 2: range(1, 5), 3: range(1, 4)}
        cap = {1: 60, 2: 16, 3: 18}
    else:
        alph = {1: range(1, 9), 2: range(1, 6), 3: range(1, 6)}
        cap = {1: 60, 2: 60, 3: 60}
    out = []
    for nd in range(1, maxdim + 1):
        for s in itertools.product(alph[nd], repeat=nd):
            if int(np.prod(s)) <= cap[nd]:
                out.append(list(s))
    out.sort(key=lambda s: (int(np.prod(s)), len(s), s))
    return out


def _dists(nd, seed):
    from vf.ref import c09_ref as R
    return [None, 0.4, R.dist_alphabet(nd, seed, "generic")]


def cases(tier, seed):
    seed = int(seed)
    cs = []

    def add(**kw):
        kw["seed"] = seed
        cs.append(kw)
    places = ["alone", "U-first", "U-last", "RG-first"] + ([] if tier == "quick" else ["alone0", "RG-last", "mid"])
    for shp in shapes(tier):
        size = int(np.prod(shp))
        for dist in _dists(len(shp), seed):
            for harm in (False, True):
                for place in places:
                    if place == "mid" and size > 24:
                        continue
                    add(fam="op", cls="FFT", shape=shp, dist=dist, harmonic=harm, place=place, conv=CONVS[0], target="default")
                    for conv in CONVS:
                        add(fam="op", cls="Hartley", shape=shp, dist=dist, harmonic=harm, place=place, conv=conv, target="default")
                        if harm:
                            add(fam="op", cls="HT", shape=shp, dist=dist, harmonic=harm, place=place, conv=conv, target="default")
                if not isinstance(dist, float):
                    add(fam="op", cls="FFT", shape=shp, dist=dist, harmonic=harm, place="alone", conv=CONVS[1], target="explicit")
                    for conv in CONVS:
                        add(fam="op", cls="Hartley", shape=shp, dist=dist, harmonic=harm, place="U-first", conv=conv, target="explicit")
                        if harm:
                            add(fam="op", cls="HT", shape=shp, dist=dist, harmonic=harm, place="U-last", conv=conv, target="explicit")
    # ---- raw backends
    for shp in shapes(tier):
        nd = len(shp)
        axsets = [None] + [list(c) for r in range(1, nd + 1) for c in itertools.combinations(range(nd), r)]
        for axes in axsets:
            add(fam="backend", fn="fftn", shape=shp, axes=axes, conv=CONVS[0])
            add(fam="backend", fn="ifftn", shape=shp, axes=axes, conv=CONVS[1])
            for conv in CONVS:
                add(fam="backend", fn="hartley", shape=shp, axes=axes, conv=conv)
    # ---- smoothing
    sm_shapes = [[n] for n in range(1, 8 if tier == "quick" else 13)] + [[2, 3], [3, 3], [4, 2]]
    if tier != "quick":
        sm_shapes += [[3, 5], [6, 4], [5, 5], [2, 3, 2], [3, 3, 3], [4, 2, 3], [1, 4], [7, 1]]
    for shp in sm_shapes:
        for dist in _dists(len(shp), seed):
            for place in ["alone", "U-first", "U-last"] + ([] if tier == "quick" else ["RG-first"]):
                for rel in ([0., 0.4, 1., 1.6, 3.] if tier == "quick" else [0., 0.2, 0.4, 0.7, 1., 1.3, 1.6, 2.2, 3., 6.]):
                    for conv in CONVS:
                        add(fam="smooth", shape=shp, dist=dist, place=place, rel_sigma=rel, conv=conv)
    # ---- sphere
    lmaxs = range(0, 3) if tier == "quick" else range(0, 5)
    for lmax in lmaxs:
        for mmax in range(0, lmax + 1):
            tgts = [None, ["GL", lmax + 1, 2 * mmax + 1], ["GL", lmax + 2, 2 * mmax + 2], ["GL", max(1, lmax), max(1, mmax)],
                    ["HP", 1], ["HP", 2]]
            if tier != "quick":
                tgts += [["GL", lmax + 3, 2 * mmax + 5], ["HP", 3]]
            for tgt in tgts:
                for place in ["alone", "U-first", "U-last"] + ([] if tier == "quick" else ["RG-first"]):
                    for cls in ("SHT", "HT"):
                        add(fam="sht", cls=cls, lmax=lmax, mmax=mmax, tgt=tgt, place=place)
    # ---- nifty.config: every documented spelling of the convention, behaviourally
    for val, want in (("non_canonical_hartley", CONVS[0]), ("ducc_hartley", CONVS[0]), ("canonical_hartley", CONVS[1]), ("ducc_fht", CONVS[1]),
                      ("no_such_convention", "ValueError"), (3, "TypeError")):
        for key in ("hartley_convention", "HARTLEY_CONVENTION"):
            add(fam="config", key=key, value=val, want=want)
    import json
    seen, uniq = set(), []
    for c in cs:
        k = json.dumps(c, sort_keys=True)
        if k not in seen:
            seen.add(k)
            uniq.append(c)
    cs = uniq
    order = {"op": 0, "backend": 0, "smooth": 1, "sht": 2, "config": 3}
    cs.sort(key=lambda c: order[c["fam"]])         # stable: simplest (smallest grids) first inside a family
    return cs


# ===================================================================================== helpers
class Fail(Exception):
    def __init__(self, what, key, detail=None):
        Exception.__init__(self, what)
        self.what, self.key, self.detail = what, key, detail


def _expected_dist(shape, dist, harmonic):
    """Documented distances of RGSpace(shape, distances=dist, harmonic)."""
    if dist is None:
        return [1.] * len(shape) if harmonic else [1. / n for n in shape]
    if isinstance(dist, float):
        return [dist] * len(shape)
    return list(dist)


def _mkspace(ift, shape, dist, harmonic):
    d = None if dist is None else (dist if isinstance(dist, float) else tuple(dist))
    return ift.RGSpace(tuple(shape), distances=d, harmonic=harmonic)


def _place(ift, X, place):
    """-> (list of spaces, `space` argument, index of X)."""
    U = ift.UnstructuredDomain(2)
    if place == "alone":
        return [X], None, 0
    if place == "alone0":
        return [X], 0, 0
    if place == "U-first":
        return [U, X], 1, 1
    if place == "U-last":
        return [X, U], 0, 0
    if place == "RG-first":
        return [ift.RGSpace((2,), distances=0.7), X], 1, 1
    if place == "RG-last":
        return [X, ift.RGSpace((2,), distances=0.7, harmonic=True)], 0, 0
    if place == "mid":
        return [U, X, ift.RGSpace((2,), distances=0.7)], 1, 1
    raise ValueError(place)


def _geometry(spaces, idx):
    full = ()
    axes = ()
    for i, s in enumerate(spaces):
        if i == idx:
            axes = tuple(range(len(full), len(full) + len(s.shape)))
        full += tuple(s.shape)
    return full, axes


def _rmatrix(ift, op, mode, din, dout, expect_dtype, name):
    """Real-ified matrix of one mode on the complete basis (real unit vectors as float64 fields, imaginary
    unit vectors as complex128 fields) + output dtype / domain checks."""
    n, m = din.size, dout.size
    R = np.zeros((2 * m, 2 * n))
    for j in range(2 * n):
        v = np.zeros(n, dtype=np.float64 if j < n else np.complex128)
        v[j % n] = 1. if j < n else 1j
        x = ift.makeField(din, v.reshape(din.shape))
        y = op.apply(x, mode)
        if y.domain is not dout:
            raise Fail("%s: result domain %r is not the declared one" % (name, y.domain), "%s|result-domain" % name)
        a = np.asarray(y.asnumpy())
        want = expect_dtype(v.dtype)
        if a.dtype != want:
            raise Fail("%s: output dtype %s for input dtype %s, documented %s" % (name, a.dtype, v.dtype, want),
                       "%s|output-dtype|in=%s|out=%s" % (name, v.dtype, a.dtype))
        a = a.reshape(-1)
        R[:m, j] = a.real
        R[m:, j] = a.imag if np.iscomplexobj(a) else 0.
    return R


def _cmp(A, B, tol, what, key):
    if A.shape != B.shape:
        raise Fail("%s: shape %s vs %s" % (what, A.shape, B.shape), key)
    if A.size == 0:
        return 0.
    s = max(np.abs(B).max(), 1e-300)
    if not (np.all(np.isfinite(A)) and np.abs(A - B).max() <= tol * s):
        i, j = np.unravel_index(np.argmax(np.abs(np.nan_to_num(A - B, nan=np.inf))), A.shape)
        raise Fail("%s: max deviation %.3e (scale %.3e) at (%d,%d): got %.12g, expected %.12g"
                   % (what, float(np.abs(A - B).max()), s, i, j, A[i, j], B[i, j]), key)
    return float(np.abs(A - B).max() / s)


class _Convention:
    def __init__(self, conv):
        self.conv = conv

    def __enter__(self):
        import nifty.config as C
        self.old = C._config["hartley_convention"]
        C.update("hartley_convention", self.conv)

    def __exit__(self, *a):
        import nifty.config as C
        C.update("hartley_convention", self.old)


# ===================================================================================== family: op
def _run_op(c):
    import nifty.cl as ift
    from vf.ref import c09_ref as R
    cls, shape, harm, conv = c["cls"], c["shape"], c["harmonic"], c["conv"]
    tag = "%s|%s" % (cls, "harmonic-domain" if harm else "position-domain")
    X = _mkspace(ift, shape, c["dist"], harm)
    dX = _expected_dist(shape, c["dist"], harm)
    if not np.allclose(X.distances, dX, rtol=1e-14, atol=0):
        raise Fail("RGSpace%s distances %s, documented %s" % (tuple(shape), X.distances, dX), "RGSpace|distances|harmonic=%s" % harm)
    dY = [1. / (n * d) for n, d in zip(shape, dX)]          # codomain: d' = 1 / (N d)
    spaces, sparg, idx = _place(ift, X, c["place"])
    dom = ift.DomainTuple.make(tuple(spaces))
    tgt_arg = None if c["target"] == "default" else ift.RGSpace(tuple(shape), distances=tuple(dY), harmonic=not harm)
    K = {"FFT": ift.FFTOperator, "Hartley": ift.HartleyOperator, "HT": ift.HarmonicTransformOperator}[cls]
    op = K(dom, tgt_arg, sparg)
    # ---- declared domains
    if op.domain is not dom:
        raise Fail("domain is not the given one", "%s|wrong-domain" % cls)
    T = op.target
    if len(T) != len(dom) or any(T[i] != dom[i] for i in range(len(dom)) if i != idx):
        raise Fail("target %r changes untransformed sub-spaces" % (T,), "%s|target-other-spaces" % cls)
    Y = T[idx]
    if not (isinstance(Y, ift.RGSpace) and Y.harmonic == (not harm) and tuple(Y.shape) == tuple(shape)
            and np.allclose(Y.distances, dY, rtol=1e-12, atol=0)):
        raise Fail("target space %r, documented codomain has distances %s, harmonic=%s" % (Y, dY, not harm), "%s|wrong-codomain" % tag)
    cap_want = 3 if cls == "HT" else 15
    if op.capability != cap_want:
        raise Fail("capability %d, documented %d" % (op.capability, cap_want), "%s|capability" % cls)
    # ---- expected matrices
    full, axes = _geometry(spaces, idx)
    vol = float(np.prod(dX))
    if cls == "FFT":
        Tm = R.fourier_matrix(full, axes, +1 if harm else -1)
        edt = lambda dt: np.dtype(np.complex128)
    else:
        Tm = R.hartley_matrix(full, axes, conv).astype(np.complex128)
        edt = lambda dt: np.dtype(dt)
    M = vol * Tm
    Mi = np.linalg.inv(M)
    expected = {"TIMES": M, "ADJOINT": M.conj().T, "INVERSE": Mi, "ADJOINT_INVERSE": Mi.conj().T}
    N = int(np.prod(full, dtype=int))
    worst = 0.
    napp = 0
    with _Convention(conv):
        Rm = {}
        for name, bit in MODE_BITS:
            if not op.capability & bit:
                continue
            din, dout = (dom, T) if name in ("TIMES", "ADJOINT_INVERSE") else (T, dom)
            Rm[name] = _rmatrix(ift, op, bit, din, dout, edt, "%s|%s" % (tag, name))
            napp += 4 * N
            key = "%s|%s|%s" % (tag, name, "differs-from-definition")
            if cls != "FFT":
                key += "|" + conv
            worst = max(worst, _cmp(Rm[name], R.realify(expected[name]), TOL,
                                    "%s %s differs from the definition matrix (vol=%.6g)" % (cls, name, vol), key))
        # ---- generic dense vector (linearity beyond the basis) and the zero mode = integral clause
        g = R.fill(2 * N, c["seed"], 7)
        gc = g[:N] + 1j * g[N:]
        for name, vec in (("real", g[:N].copy()), ("complex", gc)):
            x = ift.makeField(dom, vec.reshape(dom.shape))
            y = np.asarray(op(x).asnumpy()).reshape(-1).astype(np.complex128)
            yr = np.concatenate([y.real, y.imag])
            xr = np.concatenate([vec.real, vec.imag if np.iscomplexobj(vec) else np.zeros(N)])
            if np.abs(yr - Rm["TIMES"] @ xr).max(initial=0.) > 10 * TOL * max(np.abs(M).max() * np.abs(g).sum(), 1e-300):
                raise Fail("%s on a dense %s field differs from its basis matrix" % (cls, name), "%s|not-linear" % tag)
            integ = x.integrate(spaces=idx)
            integ = np.asarray(integ.asnumpy() if isinstance(integ, ift.Field) else integ).reshape(-1)
            for r, (k, members) in enumerate(R.zero_mode_rows(full, axes)):
                want = vec[members].sum() * vol
                if abs(y[k] - want) > 10 * TOL * np.abs(vec[members]).sum() * vol:
                    raise Fail("zero mode %s of the transform of a %s field is not its integral %s" % (y[k], name, want),
                               "%s|zero-mode-not-integral" % tag)
                if abs(integ[r] - want) > 10 * TOL * np.abs(vec[members]).sum() * vol:
                    raise Fail("Field.integrate %s differs from sum * dvol %s" % (integ[r], want), "Field.integrate|wrong")
    # one-hot clause, read off the exact matrix: zero-mode row of a one-hot = volume element
    RT = Rm["TIMES"]
    for k, members in R.zero_mode_rows(full, axes):
        row = RT[k, :N]
        e = np.zeros(N)
        e[members] = vol
        if np.abs(row - e).max(initial=0.) > TOL * vol:
            raise Fail("zero mode of the transform of a one-hot is not its volume element %.6g" % vol, "%s|zero-mode-one-hot" % tag)
    nontriv = N > 0 and len(Rm) == (2 if cls == "HT" else 4)
    trivial_axis = "size1" if int(np.prod(shape)) == 1 else "%dd" % len(shape)
    return ok(nontrivial=nontriv, outcome="op|%s|%s|%s|%s|target=%s" % (tag, conv.split("_")[0] if cls != "FFT" else "-", c["place"], trivial_axis, c["target"]),
              stats=dict(applications=napp), detail=dict(worst_rel=worst, N=N))


# ===================================================================================== family: backend
def _run_backend(c):
    from vf.ref import c09_ref as R
    from nifty.cl import ducc_dispatch as D
    from nifty.cl.any_array import AnyArray
    shape, axes, fn, conv = tuple(c["shape"]), c["axes"], c["fn"], c["conv"]
    ax = tuple(range(len(shape))) if axes is None else tuple(axes)
    axarg = None if axes is None else tuple(axes)
    N = int(np.prod(shape))
    impls = {}
    if fn == "fftn":
        M = R.fourier_matrix(shape, ax, -1)
        impls["ducc_dispatch.fftn"] = lambda a: D.fftn(AnyArray(a), axes=axarg)
        impls["_scipy_fftn"] = lambda a: D._scipy_fftn(AnyArray(a), axes=axarg)
        same = D.fftn is D._scipy_fftn
    elif fn == "ifftn":
        M = R.fourier_matrix(shape, ax, +1) / float(np.prod([shape[a] for a in ax]))
        impls["ducc_dispatch.ifftn"] = lambda a: D.ifftn(AnyArray(a), axes=axarg)
        impls["_scipy_ifftn"] = lambda a: D._scipy_ifftn(AnyArray(a), axes=axarg)
        same = D.ifftn is D._scipy_ifftn
    else:
        import jax
        from functools import partial
        from nifty.re.correlated_field import hartley as jhartley
        M = R.hartley_matrix(shape, ax, conv)
        impls["ducc_dispatch.hartley"] = lambda a: D.hartley(AnyArray(a), axes=axarg)
        impls["_scipy_hartley"] = lambda a: D._scipy_hartley(AnyArray(a), axes=axarg)
        impls["re.hartley"] = lambda a: jhartley(a, axes=axarg)
        impls["re.hartley-jit"] = None          # traced inside the convention context below
        same = D.hartley is D._scipy_hartley
    cplx = fn != "hartley"
    scale = max(np.abs(M).max(), 1e-300)
    res = {}
    napp = 0
    with _Convention(conv):
        for name, f in impls.items():
            if f is None:
                f = jax.jit(partial(jhartley, axes=axarg))
            cols = []
            for j in range((2 if cplx else 1) * N):
                v = np.zeros(N, dtype=np.float64 if j < N else np.complex128)
                v[j % N] = 1. if j < N else 1j
                out = f(v.reshape(shape))
                if name.startswith("re."):
                    o = np.asarray(out)
                else:
                    if not isinstance(out, AnyArray):
                        raise Fail("%s returned %s, not AnyArray" % (name, type(out).__name__), "backend|%s|result-type" % name)
                    o = np.asarray(out.val)
                if o.shape != shape:
                    raise Fail("%s: output shape %s for input %s" % (name, o.shape, shape), "backend|%s|shape" % name)
                if fn == "hartley" and np.iscomplexobj(o):
                    raise Fail("%s: complex output for real input" % name, "backend|%s|dtype" % name)
                if o.dtype not in (np.float64, np.complex128):
                    raise Fail("%s: output dtype %s (precision lost)" % (name, o.dtype), "backend|%s|precision" % name)
                cols.append(o.reshape(-1).astype(np.complex128))
                napp += 1
            # generic dense array
            g = R.fill(2 * N, c["seed"], 11)
            vec = (g[:N] + 1j * g[N:]) if cplx else g[:N]
            og = np.asarray(f(vec.reshape(shape)) if name.startswith("re.") else f(vec.reshape(shape)).val).reshape(-1)
            A = np.array(cols).T if cols else np.zeros((N, 0), dtype=np.complex128)
            Mx = np.concatenate([M, 1j * M], axis=1) if cplx else M
            key = "backend|%s|%s|differs-from-definition" % (name, conv if fn == "hartley" else "-")
            _cmp(np.concatenate([A.real, A.imag]), np.concatenate([Mx.real, Mx.imag]), TOL,
                 "%s(axes=%s) differs from the definition matrix" % (name, axes), key)
            if np.abs(og - M @ vec).max(initial=0.) > 10 * TOL * scale * max(np.abs(vec).sum(), 1.):
                raise Fail("%s on a dense array differs from its basis matrix" % name, "backend|%s|not-linear" % name)
            res[name] = A
    names = sorted(res)
    worst = 0.
    for a, b in itertools.combinations(names, 2):
        d = float(np.abs(res[a] - res[b]).max(initial=0.))
        worst = max(worst, d / scale)
        if d > TOL * scale:
            raise Fail("%s and %s disagree by %.3e (axes=%s, %s)" % (a, b, d, axes, conv),
                       "backend|disagree|%s|%s|%s" % (a, b, conv if fn == "hartley" else "-"))
    return ok(nontrivial=(not same) and N > 0,
              outcome="backend|%s|%s|%dd|axes=%s" % (fn, conv.split("_")[0] if fn == "hartley" else "-", len(shape),
                                                   "all" if axes is None else ("full" if len(ax) == len(shape) else "partial")),
              stats=dict(applications=napp), detail=dict(worst_rel_disagreement=worst, impls=names))


# ===================================================================================== family: smooth
def _run_smooth(c):
    import nifty.cl as ift
    from vf.ref import c09_ref as R
    shape, conv = c["shape"], c["conv"]
    X = _mkspace(ift, shape, c["dist"], False)
    dX = _expected_dist(shape, c["dist"], False)
    sigma = float(c["rel_sigma"]) * min(dX)
    spaces, sparg, idx = _place(ift, X, c["place"])
    dom = ift.DomainTuple.make(tuple(spaces))
    full, axes = _geometry(spaces, idx)
    N = int(np.prod(full, dtype=int))
    tag = "sigma=0" if sigma == 0 else "sigma>0"
    with _Convention(conv):
        op = ift.HarmonicSmoothingOperator(dom, sigma, sparg)
        if op.domain is not dom or op.target is not dom:
            raise Fail("domain/target of the smoothing operator is not the given domain", "HarmonicSmoothing|wrong-domain|%s" % tag)
        Rm = _rmatrix(ift, op, ift.LinearOperator.TIMES, dom, dom, lambda dt: np.dtype(dt), "HarmonicSmoothing|TIMES")
        Ra = _rmatrix(ift, op, ift.LinearOperator.ADJOINT_TIMES, dom, dom, lambda dt: np.dtype(dt), "HarmonicSmoothing|ADJOINT")
    if sigma == 0:
        if not np.array_equal(Rm, np.eye(2 * N)) or not np.array_equal(Ra, np.eye(2 * N)):
            raise Fail("sigma = 0 is not the identity (max dev %.3e)" % np.abs(Rm - np.eye(2 * N)).max(), "HarmonicSmoothing|sigma0-not-identity")
        return ok(nontrivial=True, outcome="smooth|sigma=0|identity|%s" % c["place"], stats=dict(applications=4 * N))
    K, cond = R.smoothing_matrix_harmonic(shape, dX, sigma)
    Kf = R.embed(K, full, axes)
    _cmp(Rm, R.realify(Kf), TOL, "smoothing differs from the harmonic definition (sigma=%.4g)" % sigma,
         "HarmonicSmoothing|differs-from-harmonic-definition|%s" % conv)
    _cmp(Ra, R.realify(Kf.conj().T), TOL, "adjoint smoothing differs from the transposed definition",
         "HarmonicSmoothing|adjoint-differs|%s" % conv)
    C, bound = R.smoothing_matrix_position(shape, dX, sigma)
    Cf = R.embed(C, full, axes)
    dev = float(np.abs(Rm[:N, :N] - Cf).max())
    if dev > bound + 1e-12:
        raise Fail("smoothing differs from the position-space convolution with a Gaussian of std sigma=%.4g by %.3e > alias bound %.3e"
                   % (sigma, dev, bound), "HarmonicSmoothing|not-gaussian-of-width-sigma")
    if np.abs(Rm[:N, N:]).max(initial=0.) > TOL or np.abs(Rm[:N, :N] - Rm[N:, N:]).max(initial=0.) > TOL:
        raise Fail("smoothing does not act identically on real and imaginary part", "HarmonicSmoothing|complex-parts")
    if np.abs(Rm[:N, :N].sum(axis=0) - 1.).max(initial=0.) > 1e-11:
        raise Fail("smoothing does not conserve the integral (column sums != 1)", "HarmonicSmoothing|integral-not-conserved")
    sharp = bound < 1e-2
    return ok(nontrivial=sharp, outcome="smooth|sigma>0|%s|%s|%dd" % ("gauss-sharp" if sharp else "gauss-vacuous", c["place"], len(shape)),
              stats=dict(applications=4 * N), detail=dict(alias_bound=bound, dev_from_gaussian=dev, sigma=sigma))


# ===================================================================================== family: sht
def _run_sht(c):
    import nifty.cl as ift
    from vf.ref import c02_geom as G
    from vf.ref import c09_ref as R
    lmax, mmax, tgt = c["lmax"], c["mmax"], c["tgt"]
    L = ift.LMSpace(lmax, mmax)
    tspec = tgt if tgt is not None else ["GL", lmax + 1, 2 * mmax + 1]         # documented default codomain
    targ = None if tgt is None else (ift.GLSpace(tgt[1], tgt[2]) if tgt[0] == "GL" else ift.HPSpace(tgt[1]))
    spaces, sparg, idx = _place(ift, L, c["place"])
    dom = ift.DomainTuple.make(tuple(spaces))
    K = ift.SHTOperator if c["cls"] == "SHT" else ift.HarmonicTransformOperator
    op = K(dom, targ, sparg)
    tag = "%s|%s" % (c["cls"], tspec[0])
    T = op.target
    P = T[idx]
    if tspec[0] == "GL":
        okp = isinstance(P, ift.GLSpace) and (P.nlat, P.nlon) == (tspec[1], tspec[2])
    else:
        okp = isinstance(P, ift.HPSpace) and P.nside == tspec[1]
    if not okp or any(T[i] != dom[i] for i in range(len(dom)) if i != idx):
        raise Fail("target %r, documented %s" % (T, tspec), "%s|wrong-target" % tag)
    if op.capability != 3:
        raise Fail("capability %d, documented TIMES|ADJOINT_TIMES" % op.capability, "%s|capability" % tag)
    nl = len(G.lm_layout(lmax, mmax))
    if L.size != nl:
        raise Fail("LMSpace(%d,%d).size = %d, layout has %d real coefficients" % (lmax, mmax, L.size, nl), "LMSpace|size")
    th, ph = G.gl_angles(tspec[1], tspec[2]) if tspec[0] == "GL" else G.hp_angles(tspec[1])
    S = G.sht_matrix(lmax, mmax, th, ph)
    full, axes = _geometry(spaces, idx)
    tfull = tuple(T.shape)
    pre = int(np.prod(full[:axes[0]], dtype=int))
    post = int(np.prod(full[axes[0] + 1:], dtype=int))
    Sf = np.kron(np.kron(np.eye(pre), S), np.eye(post))
    same = lambda dt: np.dtype(dt)
    Rt = _rmatrix(ift, op, 1, dom, T, same, "%s|TIMES" % tag)
    Ra = _rmatrix(ift, op, 2, T, dom, same, "%s|ADJOINT" % tag)
    _cmp(Rt, R.realify(Sf), 1e-10, "SHT TIMES differs from sph_harm_y / sqrt(4 pi)", "%s|TIMES|differs-from-definition" % tag)
    _cmp(Ra, R.realify(Sf.T), 1e-10, "SHT ADJOINT differs from the transposed definition", "%s|ADJOINT|differs-from-definition" % tag)
    # volume convention on the sphere: integral of the synthesised map = monopole coefficient
    exact = tspec[0] == "GL" and 2 * tspec[1] - 1 >= lmax and tspec[2] > mmax
    label = "quadrature-inexact"
    if exact:
        w = G.spec_dvol(tspec)
        if abs(w.sum() - 4 * np.pi) > 1e-12:
            raise Fail("harness: GL weights do not sum to 4 pi", "harness")
        integ = w @ Rt[:S.shape[0] * pre * post, :nl * pre * post].reshape(pre, S.shape[0], post, pre, nl, post)[0, :, 0, 0, :, 0]
        e0 = np.zeros(nl)
        e0[0] = 1.
        if np.abs(integ - e0).max() > 1e-10:
            raise Fail("integral over the sphere of the synthesised map is not the monopole coefficient: %s" % integ,
                       "%s|zero-mode-not-integral" % tag)
        label = "integral=monopole"
        if 2 * tspec[1] - 1 >= 2 * lmax and tspec[2] > 2 * mmax:
            # documented: position -> harmonic (integral, i.e. volume weighted) -> position scales a monopole by 1/(4 pi);
            # with exact quadrature the weighted analysis is the left inverse of the synthesis up to 1/(4 pi)
            An = Ra[:nl * pre * post, :S.shape[0] * pre * post].reshape(pre, nl, post, pre, S.shape[0], post)[0, :, 0, 0, :, 0]
            Sn = Rt[:S.shape[0] * pre * post, :nl * pre * post].reshape(pre, S.shape[0], post, pre, nl, post)[0, :, 0, 0, :, 0]
            back = Sn @ (An @ w)
            if np.abs(back - 1. / (4 * np.pi)).max() > 1e-10:
                raise Fail("unit monopole -> harmonic (weighted adjoint) -> position is not 1/(4 pi)", "%s|monopole-roundtrip" % tag)
            if np.abs(An @ (w[:, None] * Sn) - np.eye(nl) / (4 * np.pi)).max() > 1e-10:
                raise Fail("A^T W A != 1/(4 pi) on an exactly integrating GL grid", "%s|not-orthonormal" % tag)
            label = "integral=monopole+orthonormal"
    return ok(nontrivial=True, outcome="sht|%s|%s|%s" % (tag, c["place"], label),
              stats=dict(applications=4 * (Rt.shape[1] // 2 + Ra.shape[1] // 2)), detail=dict(lm=nl, npix=S.shape[0]))


# ===================================================================================== family: config
def _run_config(c):
    import nifty.cl as ift
    import nifty.config as C
    from vf.ref import c09_ref as R
    old = C._config["hartley_convention"]
    try:
        try:
            C.update(c["key"], c["value"])
        except (ValueError, TypeError) as e:
            if type(e).__name__ == c["want"] and C._config["hartley_convention"] == old:
                return ok(nontrivial=True, outcome="config|rejected|%s" % c["want"])
            raise Fail("update(%r, %r) raised %s, documented outcome %s" % (c["key"], c["value"], type(e).__name__, c["want"]), "config|wrong-rejection")
        if c["want"] in ("ValueError", "TypeError"):
            raise Fail("update(%r, %r) was accepted, documented %s" % (c["key"], c["value"], c["want"]), "config|invalid-value-accepted")
        stored = C._config["hartley_convention"]
        # behavioural: EVERY backend now follows the convention this spelling denotes, on the full unit basis of
        # non-symmetric grids (3 pixels / 2x3 pixels: the sine terms tell the conventions apart)
        import jax
        from functools import partial
        from nifty.cl import ducc_dispatch as D
        from nifty.cl.any_array import AnyArray
        from nifty.re.correlated_field import hartley as jhartley
        napp = 0
        for shape in ((3,), (2, 3)):
            ax = tuple(range(len(shape)))
            N = int(np.prod(shape))
            H = R.hartley_matrix(shape, ax, c["want"])
            other = R.hartley_matrix(shape, ax, CONVS[1 - CONVS.index(c["want"])])
            if not np.abs(H - other).max() > 0.5:
                raise Fail("harness: conventions indistinguishable on %s" % (shape,), "harness")
            dom = ift.DomainTuple.make(ift.RGSpace(shape, distances=1.))
            op = ift.HartleyOperator(dom)
            Rm = _rmatrix(ift, op, 1, dom, op.target, lambda dt: np.dtype(dt), "config|Hartley")
            _cmp(Rm, R.realify(H), TOL, "after update(%r, %r) HartleyOperator does not follow %s" % (c["key"], c["value"], c["want"]),
                 "config|convention-not-applied|HartleyOperator|%s" % c["value"])
            impls = {"ducc_dispatch.hartley": lambda v: D.hartley(AnyArray(v), axes=ax).val,
                     "_scipy_hartley": lambda v: D._scipy_hartley(AnyArray(v), axes=ax).val,
                     "re.hartley": lambda v: jhartley(v, axes=ax),
                     "re.hartley-jit": jax.jit(partial(jhartley, axes=ax))}          # traced after the update
            for name, f in impls.items():
                A = np.zeros((N, N))
                for j in range(N):
                    e = np.zeros(N)
                    e[j] = 1.
                    A[:, j] = np.asarray(f(e.reshape(shape))).reshape(-1)
                    napp += 1
                _cmp(A, H, TOL, "after update(%r, %r) %s does not follow %s (the convention this spelling denotes)" % (c["key"], c["value"], name, c["want"]),
                     "config|convention-not-applied|%s|%s" % (name, c["value"]))
        # the stored value is the normalised name (every reader of the config compares against the two canonical names)
        if stored != c["want"]:
            raise Fail("update(%r, %r) stored %r, documented normalised name %r" % (c["key"], c["value"], stored, c["want"]),
                       "config|alias-not-normalised|%s" % c["value"])
        return ok(nontrivial=True, outcome="config|%s|%s|all-backends" % (c["value"], c["want"].split("_")[0]), stats=dict(applications=napp))
    finally:
        C._config["hartley_convention"] = old


# ===================================================================================== dispatch
def run(case):
    try:
        return {"op": _run_op, "backend": _run_backend, "smooth": _run_smooth, "sht": _run_sht, "config": _run_config}[case["fam"]](case)
    except Fail as f:
        return bad(f.what, finding_key=f.key, detail=f.detail)


def finish(run):
    fam = {}
    for o, n in run.outcomes.items():
        fam[o.split("|")[0]] = fam.get(o.split("|")[0], 0) + n
    return dict(cases_passing_per_family=fam)
