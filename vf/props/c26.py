"""C26 Sample lists persist faithfully and report exact statistics.

(H) explicit-state BFS over save histories on the real SampleList /
    ResidualSampleList classes sharing ONE file-name base (as optimize_kl's
    strategy "latest" does).  Transitions = save(kind, n samples, k tasks,
    overwrite=True); in every reached state the list is loaded with every task
    count k' (all rank interleavings under SimComm) and compared with the
    reference model "the samples of the last save, in order, distributed by
    shareRange".  Sample contents carry the index of the save that wrote them,
    so a stale sample leaking into a load is visible.  States are canonicalised
    by the directory listing with save-versions relabelled order-preservingly.
(H') ALL distributions of n samples over k tasks (every composition of n into k
    parts, zeros included) for the save, over an empty or a longer foreign
    list, every interleaving, then load with 1..3 tasks.
(P) streaming statistics: ALL value sequences of length 1..4 over a 5-value
    alphabet (real and complex, equal values included) through StatCalculator,
    sample_stat, average (1..3 tasks) and save_to_hdf5 read back with h5py.
"""
import itertools
import os
import shutil
import tempfile

import numpy as np

from vf.core import ok, bad, skip

ID = "C26"
LEVEL = "model_checking"
RULE = ("(H) BFS over save histories (kind x n in {1,2,3,5} x tasks) to a depth, state = canonical directory + "
        "last save; every state: load with every task count under all interleavings, overwrite=False must refuse. "
        "(P) all value sequences of length 1..4 over 5 values. non-trivial (H) = state reached by overwriting a "
        "longer or differently-typed list; (P) = sequence with >=2 distinct values")
ASSUMPTIONS = [
    "simulated communicator (SimComm); all ranks share one directory, as MPI tasks on one node do",
    "complex variance = E|x-mean|^2 * n/(n-1) (numpy convention) is what 'unbiased variance' means for complex outputs",
]

NS = [1, 2, 3, 5, 11]   # 11: sample index with two digits (file-name pattern)


def _dom(multi):
    import nifty.cl as ift
    d = ift.RGSpace(2)
    return ift.MultiDomain.make({"a": d, "b": ift.UnstructuredDomain(1)}) if multi else ift.DomainTuple.make(d)


def _field(multi, version, i, part):
    """Deterministic content: identifies (save version, sample index, part)."""
    import nifty.cl as ift
    base = 1000. * version + 10. * i + part
    if multi:
        return ift.MultiField.from_dict({"a": ift.makeField(ift.RGSpace(2), np.array([base, base + 0.5])),
                                         "b": ift.makeField(ift.UnstructuredDomain(1), np.array([-base]))})
    return ift.makeField(ift.RGSpace(2), np.array([base, base + 0.5]))


def _flat(f):
    import nifty.cl as ift
    if isinstance(f, ift.MultiField):
        return np.concatenate([f[k].asnumpy().ravel() for k in f.keys()])
    return f.asnumpy().ravel()


def _expected_item(kind, multi, version, i):
    if kind == "plain":
        return _flat(_field(multi, version, i, 0))
    m = _flat(_field(multi, version, 0, 7))
    r = _flat(_field(multi, version, i, 1))
    return m - r if i % 2 else m + r


def _do_save(base, kind, multi, n, k, version, overwrite=True, layout=None):
    """save with k tasks under SimComm, default schedule + all interleavings.
    layout: per-task sample counts (default: the shareRange distribution)."""
    import nifty.cl as ift
    from nifty.cl.utilities import shareRange
    from vf import simcomm

    def program(rank, comm):
        if layout is None:
            lo, hi = shareRange(n, k, rank)
        else:
            lo = sum(layout[:rank])
            hi = lo + layout[rank]
        c = comm if k > 1 else None
        if kind == "plain":
            sl = ift.SampleList([_field(multi, version, i, 0) for i in range(lo, hi)], comm=c, domain=_dom(multi))
        else:
            sl = ift.ResidualSampleList(_field(multi, version, 0, 7), [_field(multi, version, i, 1) for i in range(lo, hi)],
                                        [bool(i % 2) for i in range(lo, hi)], comm=c)
        sl.save(base, overwrite=overwrite)
        return sl.n_samples
    return program


def _do_load(base, kind, multi, k):
    import nifty.cl as ift

    def program(rank, comm):
        c = comm if k > 1 else None
        cls = ift.SampleList if kind == "plain" else ift.ResidualSampleList
        sl = cls.load(base, comm=c)
        loc = [_flat(sl.local_item(i)) for i in range(sl.n_local_samples)]
        return dict(n=sl.n_samples, local=loc, indices=list(sl.local_indices))
    return program


def _listing(d):
    return sorted(os.listdir(d))


def _snapshot(d):
    return {f: open(os.path.join(d, f), "rb").read() for f in os.listdir(d)}


def _restore(d, snap):
    for f in os.listdir(d):
        os.remove(os.path.join(d, f))
    for f, b in snap.items():
        with open(os.path.join(d, f), "wb") as fh:
            fh.write(b)


def _run_all_schedules(k, program, d, snap, check):
    """explore all interleavings; the directory is restored before every execution"""
    from vf import simcomm
    stats = dict(executions=0, states=0, transitions=0)
    final = {}

    def prog(rank, comm):
        return program(rank, comm)
    # simcomm.explore re-executes from scratch: hook a restore into the first rank's start
    stack = [[]]
    seen = set()
    viol = None
    while stack:
        prefix = stack.pop()
        _restore(d, snap)
        x = simcomm.Execution(k, prog, "rendezvous", prefix).run()
        stats["executions"] += 1
        v = check(x)
        if v and viol is None:
            viol = dict(what=v, schedule=list(x.choices))
        final[stats["executions"]] = _snapshot(d)
        for i in range(len(prefix), len(x.points)):
            sk, en = x.points[i]
            if sk in seen:
                break
            seen.add(sk)
            stats["states"] += 1
            stats["transitions"] += len(en)
            for alt in range(len(en) - 1, 0, -1):
                stack.append(x.choices[:i] + [alt])
    snaps = list(final.values())
    if any(s != snaps[0] for s in snaps[1:]) and viol is None:
        viol = dict(what="directory after the operation depends on the rank schedule")
    return stats, viol, snaps[0]


def _canon_dir(snap_versions):
    """snap_versions: {filename: version}; relabel versions order-preservingly"""
    vs = sorted(set(snap_versions.values()))
    m = {v: i for i, v in enumerate(vs)}
    return tuple(sorted((f, m[v]) for f, v in snap_versions.items()))


def explore_histories(multi, depth, ktasks):
    """BFS over save histories; returns stats and first violation."""
    from collections import deque
    ops = [(kind, n, k) for kind in ("resid", "plain") for n in NS for k in ktasks]
    work = tempfile.mkdtemp(prefix="c26_")
    d = os.path.join(work, "sl")
    os.makedirs(d)
    base = os.path.join(d, "latest")
    tot = dict(states=0, transitions=0, executions=0, loads=0, overwrite_shorter=0, type_switch=0)
    try:
        # state: (history). file versions tracked from the model of which save wrote which file
        init = ()
        seen = set()
        frontier = deque([(init, {}, {}, None)])   # history, snapshot(bytes), file->version, last
        seen.add(((), None))
        while frontier:
            hist, snap, fver, last = frontier.popleft()
            tot["states"] += 1
            # ---- checks in this state
            if last is not None:
                kind, n, ver = last
                for k2 in ktasks:
                    def check_load(x, kind=kind, n=n, ver=ver, k2=k2):
                        from nifty.cl.utilities import shareRange
                        if x.deadlock:
                            return "deadlock during load"
                        for r in range(k2):
                            if x.errors[r] is not None:
                                return "load with %d tasks raised on rank %d: %r" % (k2, r, x.errors[r])
                        for r in range(k2):
                            res = x.results[r]
                            lo, hi = shareRange(n, k2, r)
                            if res["n"] != n:
                                return "load reports %d samples, last save wrote %d" % (res["n"], n)
                            if res["indices"] != list(range(lo, hi)):
                                return "rank %d of %d holds indices %s, expected %s" % (r, k2, res["indices"], list(range(lo, hi)))
                            for j, i in enumerate(range(lo, hi)):
                                if not np.array_equal(res["local"][j], _expected_item(kind, multi, ver, i)):
                                    got = res["local"][j]
                                    stale = int(abs(got[0]) // 1000) if kind == "plain" else None
                                    return ("sample %d loaded on rank %d/%d is not the one written by the last save "
                                            "(got %s, expected %s)" % (i, r, k2, got, _expected_item(kind, multi, ver, i)))
                        return None
                    st, viol, _ = _run_all_schedules(k2, _do_load(base, kind, multi, k2), d, snap, check_load)
                    tot["loads"] += 1
                    tot["executions"] += st["executions"]
                    if viol:
                        return tot, dict(history=list(hist), op="load k=%d" % k2, **viol)
                # overwrite=False on an occupied base must refuse and leave existing samples untouched
                def check_refuse(x):
                    if not any(e is not None for e in x.errors):
                        return "save(overwrite=False) over an existing list did not raise"
                    return None
                st, viol, after = _run_all_schedules(1, _do_save(base, kind, multi, n, 1, 99, overwrite=False), d, snap, check_refuse)
                tot["executions"] += st["executions"]
                if viol is None:
                    for f, b in snap.items():
                        if after.get(f) != b:
                            viol = dict(what="save(overwrite=False) modified existing file %s" % f)
                            break
                if viol:
                    return tot, dict(history=list(hist), op="save(overwrite=False)", **viol)
            if len(hist) >= depth:
                continue
            # ---- transitions
            for (kind, n, k) in ops:
                ver = len(hist) + 1
                def check_save(x, n=n, k=k):
                    if x.deadlock:
                        return "deadlock during save"
                    for r in range(k):
                        if x.errors[r] is not None:
                            return "save raised on rank %d: %r" % (r, x.errors[r])
                    return None
                st, viol, after = _run_all_schedules(k, _do_save(base, kind, multi, n, k, ver), d, snap, check_save)
                tot["transitions"] += 1
                tot["executions"] += st["executions"]
                if viol:
                    return tot, dict(history=list(hist) + [(kind, n, k)], op="save", **viol)
                fver2 = dict(fver)
                for f, b in after.items():
                    if snap.get(f) != b:
                        fver2[f] = ver
                for f in list(fver2):
                    if f not in after:
                        del fver2[f]
                if last is not None and n < last[1]:
                    tot["overwrite_shorter"] += 1
                if last is not None and kind != last[0]:
                    tot["type_switch"] += 1
                # canonical state: listing with relative versions + (kind, n) of the last save; depth budget
                key = (_canon_dir(fver2), (kind, n), len(hist) + 1)
                if key in seen:
                    continue
                seen.add(key)
                frontier.append((hist + ((kind, n, k),), after, fver2, (kind, n, ver)))
        return tot, None
    finally:
        shutil.rmtree(work, ignore_errors=True)


def _compositions(n, k):
    if k == 1:
        yield (n,)
        return
    for a in range(n + 1):
        for rest in _compositions(n - a, k - 1):
            yield (a,) + rest


def layout_case(kind, multi, n, k, prior):
    """ALL distributions of n samples over k tasks (zeros included, not only the shareRange one): save over
    `prior` (None or a longer single-task list of the same/other kind), then load with 1..3 tasks."""
    from nifty.cl.utilities import shareRange
    work = tempfile.mkdtemp(prefix="c26l_")
    d = os.path.join(work, "sl")
    os.makedirs(d)
    base = os.path.join(d, "latest")
    st_tot = dict(states=0, transitions=0, executions=0, loads=0, layouts=0, nonstandard=0)
    try:
        snap0 = {}
        if prior is not None:
            _, viol, snap0 = _run_all_schedules(1, _do_save(base, prior, multi, 7, 1, 1), d, {}, lambda x: None)
        for layout in _compositions(n, k):
            st_tot["layouts"] += 1
            std = tuple(hi - lo for lo, hi in (shareRange(n, k, r) for r in range(k)))
            st_tot["nonstandard"] += layout != std

            def check_save(x):
                if x.deadlock:
                    return "deadlock during save"
                for r in range(k):
                    if x.errors[r] is not None:
                        return "save raised on rank %d: %r" % (r, x.errors[r])
                return None
            st, viol, after = _run_all_schedules(k, _do_save(base, kind, multi, n, k, 2, layout=layout), d, snap0, check_save)
            st_tot["transitions"] += 1
            st_tot["executions"] += st["executions"]
            if viol:
                return st_tot, dict(layout=layout, op="save", **viol)
            for k2 in (1, 2, 3):
                def check_load(x, k2=k2):
                    if x.deadlock:
                        return "deadlock during load"
                    for r in range(k2):
                        if x.errors[r] is not None:
                            return "load with %d tasks raised on rank %d: %r" % (k2, r, x.errors[r])
                    for r in range(k2):
                        res = x.results[r]
                        lo, hi = shareRange(n, k2, r)
                        if res["n"] != n:
                            return "load reports %d samples, the save wrote %d" % (res["n"], n)
                        if res["indices"] != list(range(lo, hi)):
                            return "rank %d of %d holds indices %s, expected %s" % (r, k2, res["indices"], list(range(lo, hi)))
                        for j, i in enumerate(range(lo, hi)):
                            if not np.array_equal(res["local"][j], _expected_item(kind, multi, 2, i)):
                                return ("sample %d loaded on rank %d/%d is not the one the save wrote (got %s, expected %s)"
                                        % (i, r, k2, res["local"][j], _expected_item(kind, multi, 2, i)))
                    return None
                st, viol, _ = _run_all_schedules(k2, _do_load(base, kind, multi, k2), d, after, check_load)
                st_tot["loads"] += 1
                st_tot["executions"] += st["executions"]
                if viol:
                    return st_tot, dict(layout=layout, op="load k=%d" % k2, **viol)
        return st_tot, None
    finally:
        shutil.rmtree(work, ignore_errors=True)


# ------------------------------------------------------------------ (P) statistics
VALS_R = [0.0, 1.5, -2.0, 1.5 + 1e-9, 1e8]
VALS_C = [0.0, 1.5 + 0.5j, -2.0j, 1.5 + 0.5j, 3.0 - 1.0j]


def stats_case(seq, cplx, k):
    import nifty.cl as ift
    from nifty.cl.utilities import shareRange
    from vf import simcomm
    dom = ift.RGSpace(2)
    vals = [np.array([v, -2 * v + 1]) for v in seq]
    arr = np.array(vals)
    n = len(seq)
    mean_ref = arr.mean(axis=0)
    var_ref = (np.abs(arr - mean_ref) ** 2).sum(axis=0) / (n - 1) if n > 1 else np.zeros(2)
    scale = max(1., np.abs(arr).max())

    def program(rank, comm):
        lo, hi = shareRange(n, k, rank)
        c = comm if k > 1 else None
        sl = ift.SampleList([ift.makeField(dom, v) for v in vals[lo:hi]], comm=c, domain=dom)
        op = ift.ScalingOperator(dom, 2.)
        av = sl.average().asnumpy()
        av2 = sl.average(op).asnumpy()
        m, v = sl.sample_stat()
        return av, av2, m.asnumpy(), v.asnumpy()
    x = simcomm.Execution(k, program, "rendezvous", []).run()
    if x.deadlock or any(e is not None for e in x.errors):
        return "statistics raised/deadlocked: %r" % ([e for e in x.errors if e is not None][:1],)
    tol = 1e-12
    for r in range(k):
        av, av2, m, v = x.results[r]
        if np.abs(av - mean_ref).max() > tol * scale:
            return "average != arithmetic mean (rank %d/%d): %s vs %s" % (r, k, av, mean_ref)
        if np.abs(av2 - 2 * mean_ref).max() > tol * scale:
            return "average(op) != mean of operator outputs"
        if np.abs(m - mean_ref).max() > tol * scale:
            return "sample_stat mean != arithmetic mean: %s vs %s" % (m, mean_ref)
        # streaming variance: relative to scale^2 (catastrophic cancellation is the streaming algorithm's job to avoid)
        if np.abs(v - var_ref).max() > 1e-7 * max(1., np.abs(var_ref).max()):
            return "sample_stat variance != unbiased variance: %s vs %s" % (v, var_ref)
    return None


def hdf5_case(seq):
    import h5py
    import nifty.cl as ift
    dom = ift.RGSpace(2)
    vals = [np.array([v, -2 * v + 1]) for v in seq]
    arr = np.array(vals)
    n = len(seq)
    sl = ift.SampleList([ift.makeField(dom, v) for v in vals])
    tmp = tempfile.mkdtemp(prefix="c26h_")
    try:
        fn = os.path.join(tmp, "x.h5")
        sl.save_to_hdf5(fn, samples=True, mean=True, std=True)
        with h5py.File(fn, "r") as f:
            got = np.array([f["samples"][str(i)][...] for i in range(n)])
            m = f["stats"]["mean"][...]
            s = f["stats"]["standard deviation"][...]
        if not np.array_equal(got, arr):
            return "HDF5 samples differ from the list"
        ref_s = np.sqrt((np.abs(arr - arr.mean(0)) ** 2).sum(0) / (n - 1)) if n > 1 else np.zeros(2)
        if np.abs(m - arr.mean(0)).max() > 1e-12 * max(1., np.abs(arr).max()):
            return "HDF5 mean differs"
        if np.abs(s - ref_s).max() > 1e-7 * max(1., np.abs(ref_s).max()):
            return "HDF5 standard deviation differs: %s vs %s" % (s, ref_s)
    finally:
        shutil.rmtree(tmp, ignore_errors=True)
    return None


def cases(tier, seed):
    out = []
    depth = 3 if tier == "quick" else 4
    kt = [1, 2, 3] if tier == "quick" else [1, 2, 3, 4]
    for multi in (False, True):
        out.append(dict(kind="bfs", multi=multi, depth=depth, ktasks=kt))
    for kind in ("resid", "plain"):
        for prior in (None, "resid", "plain"):
            for k in ([2, 3] if tier == "quick" else [2, 3, 4]):
                for n in ([1, 2, 4] if tier == "quick" else [1, 2, 3, 4, 5]):
                    out.append(dict(kind="layout", lkind=kind, prior=prior, k=k, n=n, multi=(n % 2 == 0)))
    for cplx in (False, True):
        for L in (1, 2, 3, 4):
            for k in ([1, 2, 3] if tier == "quick" else [1, 2, 3, 4]):
                if k > 1 and L > 3 and tier == "quick":
                    continue
                out.append(dict(kind="stats", cplx=cplx, length=L, k=k))
        out.append(dict(kind="hdf5", cplx=cplx, length=3))
    return out


def run(case):
    if case["kind"] == "bfs":
        tot, viol = explore_histories(case["multi"], case["depth"], case["ktasks"])
        st = dict(states=tot["states"], transitions=tot["transitions"], executions=tot["executions"], loads=tot["loads"])
        if viol:
            return bad("%s (history %s, then %s)" % (viol["what"], viol["history"], viol["op"]),
                       finding_key=None, detail=viol, stats=st)
        return ok(nontrivial=tot["overwrite_shorter"] > 0 and tot["type_switch"] > 0,
                  outcome="bfs-ok", stats=st, detail=tot)
    if case["kind"] == "layout":
        tot, viol = layout_case(case["lkind"], case["multi"], case["n"], case["k"], case["prior"])
        st = dict(states=tot["layouts"], transitions=tot["transitions"], executions=tot["executions"], loads=tot["loads"])
        if viol:
            return bad("%s (%s list of %d samples distributed %s over %d tasks, prior content %s; %s)"
                       % (viol["what"], case["lkind"], case["n"], viol["layout"], case["k"], case["prior"], viol["op"]),
                       finding_key=None, detail=dict(viol, layout=list(viol["layout"])), stats=st)
        return ok(nontrivial=tot["nonstandard"] > 0, outcome="layout-ok", stats=st, detail=tot)
    vals = VALS_C if case["cplx"] else VALS_R
    if case["kind"] == "stats":
        nseq = nd = 0
        for seq in itertools.product(range(5), repeat=case["length"]):
            s = [vals[i] for i in seq]
            v = stats_case(s, case["cplx"], case["k"])
            nseq += 1
            nd += len(set(s)) > 1
            if v:
                return bad("%s for value sequence %s (%d tasks)" % (v, s, case["k"]),
                           finding_key="stats|%s|%s" % ("complex" if case["cplx"] else "real", v.split(":")[0].split("(")[0].strip()),
                           stats=dict(sequences=nseq))
        return ok(nontrivial=nd > 0, outcome="stats-ok", stats=dict(sequences=nseq))
    if case["kind"] == "hdf5":
        nseq = 0
        for seq in itertools.product(range(5), repeat=case["length"]):
            s = [vals[i] for i in seq]
            v = hdf5_case(s)
            nseq += 1
            if v:
                return bad("%s for value sequence %s" % (v, s),
                           finding_key="hdf5|%s|%s" % ("complex" if case["cplx"] else "real", v.split(":")[0]),
                           stats=dict(sequences=nseq))
        return ok(nontrivial=True, outcome="hdf5-ok", stats=dict(sequences=nseq))
    raise ValueError(case)


def finish(run):
    return dict(states=int(run.extra.get("states", 0)), transitions=int(run.extra.get("transitions", 0)),
                traces_validated_against_impl=int(run.extra.get("transitions", 0)),
                impl_executions=int(run.extra.get("executions", 0)), loads_checked=int(run.extra.get("loads", 0)),
                value_sequences=int(run.extra.get("sequences", 0)))
