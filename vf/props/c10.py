"""C10 Power distribution and power analysis are exact on binned spectra.

Mode P, basis enumeration.  For every harmonic partner of a stated alphabet (the C08 alphabet, vf/ref/c08_domains.py)
and EVERY binning (natural, every coarsening of the natural binning, useful_binbounds linear / logarithmic for
nbin=None and every accepted nbin) and, for small partners, inside products with a second space on either side:

  distributor  PowerDistributor times on every unit spectrum (real and imaginary) = indicator of the bin (exactly),
               adjoint_times on every unit mode = unit vector of its bin (exactly: "sums over each bin").
  analyze      power_analyze is linear in |f|^2: it is run on EVERY one-pixel field (real, imaginary, generic complex
               amplitude), which fixes its matrix = (1/members) * indicator^T, for every choice of `spaces`;
               and on fields sqrt(distributed spectrum) * phases for every unit spectrum and a generic one
               ("returns exactly that spectrum").
  phase        the same with keep_phase_information=True: real part = power of the real part, imaginary part =
               power of the imaginary part.
  operator     create_power_operator(domain, spectrum field | callable, space) applied to every unit vector
               = diag(distributed spectrum), also adjoint and inverse.
  dof          DOFDistributor for ALL index maps {0..2}^n on small domains with uniform and non-uniform volumes.

The bin of a mode is NOT read from the library: it comes from the reference partition of C08 (k-length of the mode
from the grid definition, bin from the bounds).
"""
import itertools

import numpy as np

from vf.core import ok, bad, skip
from vf.ref import c08_domains as R

ID = "C10"
LEVEL = "exploration"
RULE = ("case = (API, harmonic partner, binning family, context); partner alphabet: RG shapes {1..N}^{1,2} u {1..M}^3 x "
        "distances {None,0.5,2.0,anisotropic} x {harmonic given directly, obtained as codomain} and all LM (lmax<=L); "
        "context: partner alone, or (partners with <= 16 modes) in a product with a position grid, a Gauss-Legendre "
        "sphere (non-uniform volumes) or a second harmonic space, on either side; inside a case EVERY binning of the "
        "family and the complete unit-vector basis of the input space (spectra: every one-hot + one generic; fields: "
        "every one-pixel field) are applied; `spaces` ranges over None, every index, the 1-tuple of the partner and the reversed pair. dof: all maps "
        "{0,1,2}^n. non-trivial = a partition with > 1 bin and a bin with > 1 member was compared")
ASSUMPTIONS = [
    "numeric values (generic spectrum, complex amplitudes, anisotropic distances) are alphabet values selected by "
    "VERIF_SEED; partners, binnings, contexts, `spaces` and the unit-vector bases are exhaustive within the bounds",
    "a k-length within 1e-9 (relative) of a bin boundary may belong to either adjacent bin (as in C08)",
    "bounds proposed by useful_binbounds that PowerSpace itself rejects ('empty bins', see C08) are outside the premise",
    "power_analyze with keep_phase_information=True on REAL input: both a rejection and power+0j satisfy the documentation",
    "power_analyze uses ONE set of binbounds for all analysed spaces (documented FIXME); a selection for which these "
    "bounds leave a bin of some space empty, or that contains a non-harmonic space, must be rejected with ValueError",
]
TOL = 1e-13


class Fail(Exception):
    def __init__(self, key, what):
        Exception.__init__(self, what)
        self.key, self.what = key, what


def _req(cond, key, what):
    if not cond:
        raise Fail(key, what)


# =============================================================================================
#                                        case catalogue
# =============================================================================================
def _bounds(tier):
    if tier == "thorough":
        return dict(n12=6, n3=4, lmax=5, prodmax=16, allvia=True)
    return dict(n12=4, n3=3, lmax=3, prodmax=9, allvia=False)


OTHERS = {
    "pos": dict(t="RG", shape=[2], dist=0.5, harm=False, via="direct"),
    "gl": dict(t="GL", nlat=3, nlon=1),
    "lm": dict(t="LM", lmax=1, mmax=1),
}


def _partners(tier, seed):
    B = _bounds(tier)
    out = [s for s in R.rg_specs(B["n12"], seed, (1, 2)) if s["harm"]]
    out += [s for s in R.rg_specs(B["n3"], seed, (3,)) if s["harm"]]
    if not B["allvia"]:      # quick: the codomain route only for default and anisotropic distances
        out = [s for s in out if s["via"] == "direct" or s["dist"] is None or isinstance(s["dist"], list)]
    out += R.lm_specs(B["lmax"])
    out.sort(key=lambda s: (int(np.prod(s["shape"])) if s["t"] == "RG" else R.ref_geom(s)["size"]))
    return out


def cases(tier, seed):
    B = _bounds(tier)
    P = _partners(tier, seed)
    out = []
    for api in ("distributor", "analyze", "phase", "operator"):
        for s in P:
            size = int(np.prod(s["shape"])) if s["t"] == "RG" else R.ref_geom(s)["size"]
            for fam in ("natural", "lin", "log"):
                out.append(dict(kind=api, partner=s, family=fam, ctx="single", seed=seed))
                if size <= B["prodmax"] and fam != "log" and size > 1:
                    ctxs = ["%s:%s" % (side, o) for o in sorted(OTHERS) for side in ("left", "right")]
                    if fam == "lin":
                        ctxs = ["left:gl", "right:lm"]
                    for ctx in ctxs:
                        out.append(dict(kind=api, partner=s, family=fam, ctx=ctx, seed=seed))
    for dom in ("rg4", "rg22", "gl22", "gl31", "dof3"):
        for ctx in ("single", "left", "right"):
            out.append(dict(kind="dof", dom=dom, ctx=ctx, seed=seed))
    order = dict(distributor=0, dof=1, analyze=2, operator=3, phase=4)
    out.sort(key=lambda c: (order[c["kind"]], c.get("ctx", "") != "single"))
    return out


# =============================================================================================
#                                        shared: binnings and contexts
# =============================================================================================
def _coarsenings(uk, maxunique=6):
    if len(uk) < 2 or len(uk) > maxunique:
        return []
    mids = [0.5 * (uk[i] + uk[i + 1]) for i in range(len(uk) - 1)]
    out = []
    for n in range(1, len(mids) + 1):
        for sub in itertools.combinations(mids, n):
            out.append([float(x) for x in sub])
    return out


def _binnings(ift, hp, partner, family):
    """list of dict(kind, bounds (handed to the library; None = natural), ps, bins (reference, flat), nbin, count)"""
    pg = R.ref_geom(partner)
    uk, amb = R.ref_unique_k(pg["karr"])
    if amb:
        return None
    raw = []
    if family == "natural":
        raw = [("natural", None)] + [("custom", b) for b in _coarsenings(uk)]
    elif len(uk) >= 3:
        log = family == "log"
        nb = None
        while True:
            try:
                bb = ift.PowerSpace.useful_binbounds(hp, log, nb)
            except ValueError:
                break
            raw.append((family, [float(x) for x in bb]))
            nb = 3 if nb is None else nb + 1
            if nb > 200:
                break
    out = []
    for kind, bounds in raw:
        pspec = dict(t="PS", partner=partner, bb=None if bounds is None else dict(kind="custom", bounds=bounds))
        pref = R.ref_power(pspec)
        try:
            ps = ift.PowerSpace(hp, None if bounds is None else tuple(bounds))
        except ValueError as e:
            if "empty bins" in str(e) and kind in ("lin", "log"):
                continue          # C08 finding (useful_binbounds proposes bounds PowerSpace rejects): outside C10's premise
            raise
        lo, hi = pref["lo"].ravel(), pref["hi"].ravel()
        bins = lo.copy()
        if pref["ambiguous"]:
            lib = np.asarray(ps.pindex).ravel()
            bins = np.where(lo == hi, lo, np.clip(lib, lo, hi))
        nbin = pref["nbin"]
        cnt = np.bincount(bins, minlength=nbin)
        if (cnt == 0).any():
            continue
        out.append(dict(kind=kind, bounds=bounds, ps=ps, bins=bins, nbin=nbin, count=cnt, pvol=pref["pvol"]))
    return out


def _context(ift, case, hp):
    """(list of domains, index of the partner, (other spec or None))"""
    ctx = case["ctx"]
    if ctx == "single":
        return [hp], 0, None
    side, o = ctx.split(":")
    other = R.build(OTHERS[o])
    return ([other, hp], 1, OTHERS[o]) if side == "left" else ([hp, other], 0, OTHERS[o])


def _fill(seed, tag, n, lo=0.5, hi=2.0):
    rng = np.random.default_rng([1000, int(seed), int(tag)])
    return np.round(rng.uniform(lo, hi, n), 3)


def _flat2(doms, arr):
    """array on a <=2-space product -> 2-D (pixels of space 0, pixels of space 1) (1-space: (n,1))"""
    n0 = doms[0].size
    n1 = doms[1].size if len(doms) > 1 else 1
    return np.asarray(arr).reshape(n0, n1)


def _close(a, b, scale=0.0):
    a, b = np.asarray(a), np.asarray(b)
    return a.shape == b.shape and bool(np.all(np.abs(a - b) <= TOL * (np.abs(a) + np.abs(b) + scale)))


def _klabel(b, case):
    return "%s|%s" % (b["kind"], "single" if case["ctx"] == "single" else "product")


def _nontrivial(bs):
    return any(b["nbin"] > 1 and b["count"].max() > 1 for b in bs)


# =============================================================================================
#                                        distributor
# =============================================================================================
def _indicator(b, n):
    M = np.zeros((n, b["nbin"]))
    M[np.arange(n), b["bins"]] = 1.
    return M


def _run_distributor(case):
    import nifty.cl as ift
    hp = R.build(case["partner"])
    bs = _binnings(ift, hp, case["partner"], case["family"])
    if bs is None:
        return skip("ambiguous unique k-lengths")
    if not bs:
        return ok(nontrivial=False, outcome="distributor|no-binning-in-family")
    doms, ih, _ = _context(ift, case, hp)
    tgt = ift.DomainTuple.make(doms)
    napp = 0
    for b in bs:
        K = "PowerDistributor|%s|" % _klabel(b, case)
        variants = [("given", ift.PowerDistributor(tgt, b["ps"], ih if len(doms) > 1 else None))]
        if b["kind"] == "natural":
            variants.append(("default", ift.PowerDistributor(tgt, space=ih)))
            if len(doms) == 1:
                variants.append(("default", ift.PowerDistributor(hp)))
        for vname, op in variants:
            sdoms = list(doms)
            sdoms[ih] = b["ps"]
            _req(op.target is tgt and op.domain is ift.DomainTuple.make(sdoms), K + "domain-target", "domain %r target %r" % (op.domain, op.target))
            ind = _indicator(b, hp.size)
            no = doms[1 - ih].size if len(doms) > 1 else 1
            amps = (1.0, 1j) if len(doms) == 1 else (1.0,)
            # times on every unit spectrum (x every pixel of the other space), real and imaginary
            for ib in range(b["nbin"]):
                for jo in range(no):
                    for amp in amps:
                        e = np.zeros((b["nbin"], no) if ih == 0 else (no, b["nbin"]), dtype=type(amp))
                        want = np.zeros((hp.size, no) if ih == 0 else (no, hp.size), dtype=type(amp))
                        if ih == 0:
                            e[ib, jo] = amp
                            want[:, jo] = amp * ind[:, ib]
                        else:
                            e[jo, ib] = amp
                            want[jo, :] = amp * ind[:, ib]
                        got = op(ift.makeField(op.domain, e.reshape(op.domain.shape)))
                        napp += 1
                        _req(got.domain is tgt and got.dtype == e.dtype, K + "times-domain-dtype", "%r %r" % (got.domain, got.dtype))
                        _req(np.array_equal(got.asnumpy().reshape(want.shape), want), K + "times!=value-of-bin",
                             "%s: unit spectrum of bin %d is distributed to %s, bin members are %s" % (
                                 vname, ib, np.nonzero(got.asnumpy().ravel())[0][:12], np.nonzero(want.ravel())[0][:12]))
            # adjoint on every unit mode: the unit vector of its bin ("sums over each bin")
            for ip in range(hp.size):
                for jo in range(no):
                    for amp in amps:
                        e = np.zeros((hp.size, no) if ih == 0 else (no, hp.size), dtype=type(amp))
                        want = np.zeros((b["nbin"], no) if ih == 0 else (no, b["nbin"]), dtype=type(amp))
                        if ih == 0:
                            e[ip, jo] = amp
                            want[b["bins"][ip], jo] = amp
                        else:
                            e[jo, ip] = amp
                            want[jo, b["bins"][ip]] = amp
                        got = op.adjoint_times(ift.makeField(tgt, e.reshape(tgt.shape)))
                        napp += 1
                        _req(got.domain is op.domain and got.dtype == e.dtype, K + "adjoint-domain-dtype", "%r %r" % (got.domain, got.dtype))
                        _req(np.array_equal(got.asnumpy().reshape(want.shape), want), K + "adjoint!=sum-over-bin",
                             "%s: unit mode %d (bin %d) is summed into %s" % (vname, ip, b["bins"][ip], got.asnumpy().ravel()[:12]))
            # a generic spectrum / field in one go (sums really add)
            g = _fill(case["seed"], 1, hp.size * no).reshape((hp.size, no) if ih == 0 else (no, hp.size))
            got = op.adjoint_times(ift.makeField(tgt, g.reshape(tgt.shape))).asnumpy()
            want = (ind.T @ g) if ih == 0 else (g @ ind)
            _req(_close(got.reshape(want.shape), want), K + "adjoint!=sum-over-bin", "generic field: %s vs %s" % (got.ravel()[:6], want.ravel()[:6]))
    return ok(nontrivial=_nontrivial(bs), outcome="distributor|%s|%s|%s" % (case["family"], case["ctx"].split(":")[0], "multi-member" if _nontrivial(bs) else "trivial"),
              stats=dict(binnings=len(bs), applications=napp))


# =============================================================================================
#                                        power_analyze
# =============================================================================================
def _selections(n, ih):
    if n == 1:
        return [None, 0, (0,)]
    return [None, 0, 1, (ih,), (1, 0)]


def _ref_analyze(ift, doms, ih, b, other_spec, sel, bounds):
    """reference of power_analyze for selection `sel`: returns ('reject', why) or ('ok', [P0, P1], result domains)
    where P_i is the averaging matrix (nbin_i x npix_i) for an analysed space and None for an untouched one."""
    idx = list(range(len(doms))) if sel is None else ([sel] if isinstance(sel, int) else list(sel))
    Ps = [None] * len(doms)
    rdoms = list(doms)
    for i in idx:
        if i == ih:
            M = _indicator(b, doms[ih].size)
            Ps[i] = (M / b["count"][None, :]).T
            rdoms[i] = b["ps"]
        else:
            if not doms[i].harmonic:
                return "reject", "non-harmonic space selected", None
            pspec = dict(t="PS", partner=other_spec, bb=None if bounds is None else dict(kind="custom", bounds=bounds))
            pref = R.ref_power(pspec)
            if pref["ambiguous"]:
                return "ambiguous", "", None
            if pref["empty"]:
                return "reject", "bounds leave bins of the second space empty", None
            bo = dict(bins=pref["lo"].ravel(), nbin=pref["nbin"], count=np.bincount(pref["lo"].ravel(), minlength=pref["nbin"]))
            M = _indicator(bo, doms[i].size)
            Ps[i] = (M / bo["count"][None, :]).T
            rdoms[i] = ift.PowerSpace(doms[i], None if bounds is None else tuple(bounds))
    return "ok", Ps, rdoms


def _apply_P(Ps, F2):
    out = F2
    if Ps[0] is not None:
        out = Ps[0] @ out
    if len(Ps) > 1 and Ps[1] is not None:
        out = out @ Ps[1].T
    return out


def _analyze_cases(ift, case):
    hp = R.build(case["partner"])
    bs = _binnings(ift, hp, case["partner"], case["family"])
    if bs is None or not bs:
        return hp, bs, None, None, None
    doms, ih, ospec = _context(ift, case, hp)
    return hp, bs, doms, ih, ospec


def _run_analyze(case, phase=False):
    import logging
    import nifty.cl as ift
    logging.getLogger("NIFTy").setLevel(logging.ERROR)      # the documented warning for non-harmonic spaces in the domain
    hp, bs, doms, ih, ospec = _analyze_cases(ift, case)
    if bs is None:
        return skip("ambiguous unique k-lengths")
    if not bs:
        return ok(nontrivial=False, outcome="analyze|no-binning-in-family")
    dom = ift.DomainTuple.make(doms)
    n0 = doms[0].size
    n1 = doms[1].size if len(doms) > 1 else 1
    amps = [1.0, 1j, complex(*_fill(case["seed"], 2, 2)) * (1 - 2j)] if not phase else [1j, 1.0 + 0j, complex(*_fill(case["seed"], 2, 2))]
    if len(doms) > 1:
        amps = amps[-1:]     # products: one generic complex amplitude per pixel fixes the |f|^2 basis
    ncalls = nrej = 0
    API = "power_analyze|keep_phase" if phase else "power_analyze"
    for bi, b in enumerate(bs):
        K = "%s|%s|" % (API, _klabel(b, case))
        bounds = b["bounds"]
        # the first binning of the case gets every selection and amplitude; the others the generic amplitude and
        # the selections None (= all spaces) and the partner alone
        full = bi == 0
        sels = _selections(len(doms), ih) if full else ([None, ih] if len(doms) > 1 else [None])
        amps_b = amps if full else amps[-1:]
        for sel in sels:
            status, Ps, rdoms = _ref_analyze(ift, doms, ih, b, ospec, sel, bounds)
            if status == "ambiguous":
                continue
            probe = ift.makeField(dom, np.ones(dom.shape, dtype=complex if phase else float))
            if status == "reject":
                try:
                    ift.power_analyze(probe, spaces=sel, binbounds=bounds, keep_phase_information=phase)
                except ValueError:
                    nrej += 1
                    continue
                raise Fail(K + "accepts|" + Ps.replace(" ", "-"), "power_analyze(spaces=%r, binbounds=%r) did not raise: %s" % (sel, bounds, Ps))
            rdom = ift.DomainTuple.make(rdoms)

            def call(arr):
                f = ift.makeField(dom, arr.reshape(dom.shape))
                try:
                    r = ift.power_analyze(f, spaces=sel, binbounds=bounds, keep_phase_information=phase)
                except ValueError as e:
                    if phase:
                        raise Fail("power_analyze|keep_phase|%s-input-rejected" % ("complex" if np.iscomplexobj(arr) else "real"),
                                   "power_analyze(%s field, keep_phase_information=True) raises %r" % (
                                       "complex" if np.iscomplexobj(arr) else "real", e))
                    raise
                _req(r.domain is rdom, K + "result-domain", "result lives on %r, expected %r" % (r.domain, rdom))
                return r.asnumpy().reshape(_apply_P(Ps, np.zeros((n0, n1))).shape), r.dtype

            if phase:
                # real input: a rejection and power+0j both satisfy the documentation (see ASSUMPTIONS)
                g = _fill(case["seed"], 8, n0 * n1).reshape(n0, n1)
                try:
                    r = ift.power_analyze(ift.makeField(dom, g.reshape(dom.shape)), spaces=sel, binbounds=bounds, keep_phase_information=True)
                except ValueError:
                    nrej += 1
                else:
                    _req(r.domain is rdom and _close(r.asnumpy().reshape(_apply_P(Ps, g).shape), _apply_P(Ps, g ** 2) + 0j),
                         K + "real-input-wrong-value", "real input with keep_phase_information=True: %s" % (r.asnumpy().ravel()[:6],))
            # ---- complete basis of |f|^2: every one-pixel field, with a real, an imaginary and a generic complex amplitude
            for p0 in range(n0):
                for p1 in range(n1):
                    for a in amps_b:
                        arr = np.zeros((n0, n1), dtype=type(a))
                        arr[p0, p1] = a
                        got, dt = call(arr)
                        ncalls += 1
                        if not phase:
                            want = _apply_P(Ps, np.abs(arr) ** 2)
                            _req(not np.issubdtype(dt, np.complexfloating), K + "result-not-real", "dtype %s" % dt)
                            _req(_close(got, want), K + "!=mean-of-squared-modulus-over-bin",
                                 "one-pixel field (%d,%d) amplitude %r, spaces=%r: got %s, bin averages %s" % (
                                     p0, p1, a, sel, got.ravel()[:8], want.ravel()[:8]))
                        else:
                            want = _apply_P(Ps, arr.real ** 2) + 1j * _apply_P(Ps, arr.imag ** 2)
                            _req(_close(got, want), K + "!=power-of-real-part+i*power-of-imaginary-part",
                                 "one-pixel field (%d,%d) amplitude %r, spaces=%r: got %s, expected %s" % (
                                     p0, p1, a, sel, got.ravel()[:8], want.ravel()[:8]))
            # ---- the statement's form: |f|^2 = distributed spectrum -> exactly that spectrum (only the partner analysed)
            if (sel == ih and isinstance(sel, int)) or (len(doms) == 1 and sel is None):
                ind = _indicator(b, hp.size)
                no = n1 if ih == 0 else n0
                spectra = [np.eye(b["nbin"])[i] for i in range(b["nbin"])] + [_fill(case["seed"], 3, b["nbin"])]
                ph_real = np.where(np.arange(hp.size) % 3 == 1, -1.0, 1.0)
                ph_cplx = np.exp(2j * np.pi * _fill(case["seed"], 4, hp.size, 0., 1.))
                for s in spectra:
                    for ph in ((ph_real, ph_cplx) if not phase else (ph_cplx,)):
                        f1 = np.sqrt(ind @ s) * ph
                        wo = _fill(case["seed"], 5, no)                   # different amplitude per pixel of the other space
                        F = np.outer(f1, wo) if ih == 0 else np.outer(wo, f1)
                        got, dt = call(F)
                        ncalls += 1
                        if not phase:
                            want = np.outer(s, wo ** 2) if ih == 0 else np.outer(wo ** 2, s)
                            _req(_close(got, want, scale=float(np.max(s))), K + "spectrum-not-recovered",
                                 "|f|^2 = distributed %s, power_analyze returns %s" % (s[:8], got.ravel()[:8]))
                        else:
                            _req(_close(np.abs(got.real) + np.abs(got.imag), np.outer(s, wo ** 2) if ih == 0 else np.outer(wo ** 2, s),
                                        scale=float(np.max(s))), K + "real+imag-power!=spectrum",
                                 "|f|^2 = distributed %s, real+imaginary power %s" % (s[:8], (got.real + got.imag).ravel()[:8]))
    return ok(nontrivial=_nontrivial(bs), outcome="%s|%s|%s|%s" % ("phase" if phase else "analyze", case["family"], case["ctx"].split(":")[0],
                                                                 "multi-member" if _nontrivial(bs) else "trivial"),
              stats=dict(binnings=len(bs), applications=ncalls, selections_rejected=nrej))


# =============================================================================================
#                                        create_power_operator
# =============================================================================================
def _run_operator(case):
    import nifty.cl as ift
    hp = R.build(case["partner"])
    bs = _binnings(ift, hp, case["partner"], case["family"])
    if bs is None:
        return skip("ambiguous unique k-lengths")
    if not bs:
        return ok(nontrivial=False, outcome="operator|no-binning-in-family")
    doms, ih, _ = _context(ift, case, hp)
    dom = ift.DomainTuple.make(doms)
    n0 = doms[0].size
    n1 = doms[1].size if len(doms) > 1 else 1
    napp = 0
    field_broken = None
    pg = R.ref_geom(case["partner"])
    for bi, b in enumerate(bs):
        K = "create_power_operator|%s|" % _klabel(b, case)
        ind = _indicator(b, hp.size)
        spectra = [("onehot" if bi else "field", np.eye(b["nbin"])[i] + 0.0) for i in range(b["nbin"])] + [("field", _fill(case["seed"], 6, b["nbin"]))]
        spectra.append(("field", _fill(case["seed"], 7, b["nbin"]) * (1 + 0.5j)))
        if b["kind"] == "natural":
            spectra.append(("callable", None))
        for how, s in spectra:
            if how == "callable":
                def fun(k):
                    return 1.5 / (1. + k) ** 2
                op = ift.create_power_operator(dom, fun, space=ih if len(doms) > 1 else None)
                # reference: the function at the mean k-length of every bin (reference k table)
                km = np.array([np.mean(pg["karr"].ravel()[b["bins"] == i]) for i in range(b["nbin"])])
                s = fun(km)
            else:
                if field_broken:
                    continue
                sf = ift.makeField(b["ps"], s)
                try:
                    op = ift.create_power_operator(dom, sf, space=ih if len(doms) > 1 else None)
                except TypeError as e:
                    # documented: "power_spectrum : callable or Field".  Recorded once per case; the callable route goes on.
                    field_broken = Fail("create_power_operator|Field-spectrum|raises-TypeError",
                                        "create_power_operator(%r, <Field on %r>) raises %r" % (doms, b["ps"], e))
                    continue
                if len(doms) == 1:
                    op2 = ift.create_power_operator(hp, sf)
                    _req(op2.domain is dom, K + "domain", "%r" % (op2.domain,))
            _req(op.domain is dom and op.target is dom, K + "domain", "domain %r target %r" % (op.domain, op.target))
            d1 = ind @ s
            D = (np.repeat(d1[:, None], n1, 1) if ih == 0 else np.repeat(d1[None, :], n0, 0))
            modes = [("times", op.times, D), ("adjoint_times", op.adjoint_times, np.conj(D))]
            if np.all(d1 != 0):
                modes += [("inverse_times", op.inverse_times, 1. / D), ("adjoint_inverse_times", op.adjoint_inverse_times, 1. / np.conj(D))]
            if how == "onehot":
                # (the diagonal structure is decided on the generic spectra of this binning; here: the values)
                for mname, fn, Dm in modes:
                    for amp in (1.0, 1j):
                        e = np.full((n0, n1), amp)
                        got = fn(ift.makeField(dom, e.reshape(dom.shape))).asnumpy().reshape(n0, n1)
                        napp += 1
                        _req(_close(got, e * Dm), K + "%s!=diagonal-of-distributed-spectrum|field" % mname,
                             "%s on the constant field %r with one-hot spectrum %s: %s" % (mname, amp, s, got.ravel()[:8]))
                continue
            for mname, fn, Dm in modes:
                for p0 in range(n0):
                    for p1 in range(n1):
                        for amp in ((1.0, 1j) if len(doms) == 1 else (1.0,)):
                            e = np.zeros((n0, n1), dtype=type(amp))
                            e[p0, p1] = amp
                            got = fn(ift.makeField(dom, e.reshape(dom.shape))).asnumpy().reshape(n0, n1)
                            napp += 1
                            want = e * Dm
                            _req(_close(got, want), K + "%s!=diagonal-of-distributed-spectrum|%s" % (mname, how),
                                 "%s on unit vector (%d,%d)*%r: %s, expected %s at that pixel" % (mname, p0, p1, amp, got[p0, p1], want[p0, p1]))
    if field_broken is not None:
        return bad(field_broken.what, finding_key=field_broken.key, stats=dict(binnings=len(bs), applications=napp))
    return ok(nontrivial=_nontrivial(bs), outcome="operator|%s|%s|%s" % (case["family"], case["ctx"].split(":")[0], "multi-member" if _nontrivial(bs) else "trivial"),
              stats=dict(binnings=len(bs), applications=napp))


# =============================================================================================
#                                        DOFDistributor
# =============================================================================================
def _run_dof(case):
    import nifty.cl as ift
    spec = dict(rg4=dict(t="RG", shape=[4], dist=0.5, harm=False, via="direct"),
                rg22=dict(t="RG", shape=[2, 2], dist=None, harm=True, via="direct"),
                gl22=dict(t="GL", nlat=2, nlon=2), gl31=dict(t="GL", nlat=3, nlon=1),
                dof3=dict(t="DOF", w=[0.5, 0.25, 4.0]))[case["dom"]]
    part = R.build(spec)
    ref = R.ref_geom(spec)
    vol = ref["dvol"].ravel()
    n = part.size
    other = ift.RGSpace(2, distances=0.5)
    doms = dict(single=[part], left=[other, part], right=[part, other])[case["ctx"]]
    isp = dict(single=0, left=1, right=0)[case["ctx"]]
    tgt = ift.DomainTuple.make(doms)
    no = 1 if case["ctx"] == "single" else 2
    nmaps = nrej = napp = 0
    for fmap in itertools.product(range(3), repeat=n):
        fm = np.array(fmap)
        nb = fm.max() + 1
        cnt = np.bincount(fm, minlength=nb)
        dofdex = ift.makeField(part, fm.reshape(part.shape))
        K = "DOFDistributor|%s|" % ("uniform-volume" if ref["uniform"] else "per-pixel-volume")
        try:
            op = ift.DOFDistributor(dofdex, tgt if case["ctx"] != "single" else None, isp if case["ctx"] != "single" else None)
        except ValueError as e:
            _req((cnt == 0).any() and "empty" in str(e), K + "ctor-raises", "dofdex %s: %r" % (fmap, e))
            nrej += 1
            continue
        _req(not (cnt == 0).any(), K + "accepts-empty-bin", "dofdex %s has an unused index but was accepted" % (fmap,))
        nmaps += 1
        ds = op.domain[isp]
        w = np.array([vol[fm == i].sum() for i in range(nb)])
        _req(isinstance(ds, ift.DOFSpace) and ds.shape == (nb,) and R.close(ds.dvol, w), K + "dof-weights!=sum-of-member-volumes",
             "dofdex %s: DOFSpace volumes %s, members sum to %s" % (fmap, ds.dvol, w))
        _req(op.target is tgt, K + "target", "%r" % (op.target,))
        ind = np.zeros((n, nb))
        ind[np.arange(n), fm] = 1.
        for ib in range(nb):
            for jo in range(no):
                for amp in (1.0, 1j):
                    e = np.zeros((nb, no) if isp == 0 else (no, nb), dtype=type(amp))
                    e[(ib, jo) if isp == 0 else (jo, ib)] = amp
                    want = np.zeros((n, no) if isp == 0 else (no, n), dtype=type(amp))
                    if isp == 0:
                        want[:, jo] = amp * ind[:, ib]
                    else:
                        want[jo, :] = amp * ind[:, ib]
                    got = op(ift.makeField(op.domain, e.reshape(op.domain.shape))).asnumpy().reshape(want.shape)
                    napp += 1
                    _req(np.array_equal(got, want), K + "times!=value-of-dof", "dofdex %s unit dof %d -> %s" % (fmap, ib, got.ravel()))
        for ip in range(n):
            for jo in range(no):
                for amp in (1.0, 1j):
                    e = np.zeros((n, no) if isp == 0 else (no, n), dtype=type(amp))
                    e[(ip, jo) if isp == 0 else (jo, ip)] = amp
                    want = np.zeros((nb, no) if isp == 0 else (no, nb), dtype=type(amp))
                    want[(fm[ip], jo) if isp == 0 else (jo, fm[ip])] = amp
                    got = op.adjoint_times(ift.makeField(tgt, e.reshape(tgt.shape))).asnumpy().reshape(want.shape)
                    napp += 1
                    _req(np.array_equal(got, want), K + "adjoint!=sum-over-dof", "dofdex %s unit pixel %d -> %s" % (fmap, ip, got.ravel()))
    return ok(nontrivial=nmaps > 1, outcome="dof|%s|%s" % (case["dom"], case["ctx"]),
              stats=dict(dof_maps=nmaps, dof_maps_rejected=nrej, applications=napp))


# =============================================================================================
def run(case):
    try:
        k = case["kind"]
        if k == "distributor":
            return _run_distributor(case)
        if k == "analyze":
            return _run_analyze(case, phase=False)
        if k == "phase":
            return _run_analyze(case, phase=True)
        if k == "operator":
            return _run_operator(case)
        if k == "dof":
            return _run_dof(case)
        raise ValueError(k)
    except Fail as f:
        return bad(f.what, finding_key=f.key)


def finish(run):
    keys = ["binnings", "applications", "selections_rejected", "dof_maps", "dof_maps_rejected"]
    return {k: int(run.extra.get(k, 0)) for k in keys}
