"""C27 The classic VI driver accepts every documented configuration.

Mode P over configurations.  quick: a pairwise covering array over the option
factors, generated greedily and VERIFIED to cover all value pairs; thorough:
the full product (plotting restricted).  Every run must complete, return what
the options say, leave constant keys untouched, write the files its save
strategy promises and leave nifty.cl.random's stack as it found it.
"""
import itertools
import os
import shutil
import tempfile

import numpy as np

from vf.core import ok, bad, skip

ID = "C27"
LEVEL = "exploration"
RULE = ("case = one assignment of the 17 option factors; quick enumerates a verified pairwise covering array plus all single-factor deviations plus the full product of the output-related option cluster, "
        "thorough the full product; non-trivial = run that executed at least one real iteration (not dry)")
ASSUMPTIONS = ["comm=None (task-count independence is C22)", "tiny two-key model; 3 global iterations"]

FACTORS = [
    ("outdir", [False, True]),
    ("sanity", [True, False]),
    ("strategy", ["latest", "all"]),
    ("plot_energy", [False, True]),
    ("plot_minisanity", [False, True]),
    ("constants", [False, True]),
    ("point_estimates", [False, True]),
    ("n_samples", ["2", "0", "sched"]),
    ("transitions", ["none", "identity", "fn_none"]),
    ("inspect", ["none", "arity1", "arity2"]),
    ("terminate", [False, True]),
    ("fresh", ["true", "callable"]),
    ("dry_run", [False, True]),
    ("return_pos", [False, True]),
    ("resume_finished", [False, True]),
    ("export", [False, True]),
    ("geovi", [False, True]),
]


def pairwise(factors):
    """Greedy pairwise covering array; verified afterwards."""
    names = [f[0] for f in factors]
    vals = [f[1] for f in factors]
    need = set()
    for i, j in itertools.combinations(range(len(factors)), 2):
        for a in vals[i]:
            for b in vals[j]:
                need.add((i, repr(a), j, repr(b)))
    rows = []
    while need:
        best = None
        # deterministic candidate pool: extend a seed pair greedily
        i0, a0, j0, b0 = sorted(need)[0]
        row = [None] * len(factors)
        row[i0] = [v for v in vals[i0] if repr(v) == a0][0]
        row[j0] = [v for v in vals[j0] if repr(v) == b0][0]
        for f in range(len(factors)):
            if row[f] is not None:
                continue
            bestv, bestc = None, -1
            for v in vals[f]:
                c = 0
                for g in range(len(factors)):
                    if row[g] is None or g == f:
                        continue
                    key = (min(f, g), repr(v if f < g else row[g]), max(f, g), repr(row[g] if f < g else v))
                    c += key in need
                if c > bestc:
                    bestv, bestc = v, c
            row[f] = bestv
        for i, j in itertools.combinations(range(len(factors)), 2):
            need.discard((i, repr(row[i]), j, repr(row[j])))
        rows.append(dict(zip(names, row)))
    # verification
    cov = set()
    for r in rows:
        for i, j in itertools.combinations(range(len(factors)), 2):
            cov.add((i, repr(r[names[i]]), j, repr(r[names[j]])))
    for i, j in itertools.combinations(range(len(factors)), 2):
        for a in vals[i]:
            for b in vals[j]:
                assert (i, repr(a), j, repr(b)) in cov
    return rows


def cases(tier, seed):
    if tier == "quick":
        # dry_run masks every other option (nothing is optimised or written): the covering array is built over
        # the remaining factors and every row is run for real; dry-run rows are added separately (they are cheap)
        real_factors = [f for f in FACTORS if f[0] != "dry_run"]
        rows = [dict(r, dry_run=False) for r in pairwise(real_factors)]
        cluster = ["outdir", "strategy", "plot_energy", "plot_minisanity", "export"]
        for r in rows:
            # output-related options only act with an output directory: give such rows one, so that their pairs
            # with the other factors are effective and not masked
            if (not r["outdir"]) and (r["plot_energy"] or r["plot_minisanity"] or r["export"] or r["resume_finished"]
                                      or r["strategy"] != "latest"):
                r["outdir"] = True
        dry_rows = [dict(r, dry_run=True) for r in rows[::3]]
        # each single-factor deviation from the all-default configuration as well (simplest first)
        default = {n: v[0] for n, v in FACTORS}
        singles = [dict(default)]
        for n, v in FACTORS:
            for alt in v[1:]:
                singles.append(dict(default, **{n: alt}))
        # full product over the output cluster (interacting options that only matter together), rest default
        fd = dict(FACTORS)
        prod = [dict(default, **dict(zip(cluster, combo))) for combo in itertools.product(*[fd[n] for n in cluster])]
        prod = [r for r in prod if r["outdir"] or not (r["plot_energy"] or r["plot_minisanity"] or r["export"] or r["strategy"] != "latest")]
        # full product over the options that steer WHAT is optimised (interact through branches of the driver)
        steer = ["n_samples", "constants", "point_estimates", "geovi"]
        prod2 = [dict(default, **dict(zip(steer, combo))) for combo in itertools.product(*[fd[n] for n in steer])]
        rows = singles + prod + prod2 + rows + dry_rows
    else:
        names = [f[0] for f in FACTORS]
        rows = []
        for combo in itertools.product(*[f[1] for f in FACTORS]):
            r = dict(zip(names, combo))
            if (r["plot_energy"] or r["plot_minisanity"]) and not (r["outdir"] and r["strategy"] == "all" and not r["dry_run"]
                                                                   and not r["geovi"] and not r["export"]):
                continue    # plotting restricted (slow): both plot switches are crossed with each other and with
                            # the remaining factors under outdir/all/no-dry-run only
            if r["export"] and not r["outdir"]:
                continue
            if r["geovi"] and (r["resume_finished"] or r["transitions"] != "none"):
                continue
            rows.append(r)
    seen, out = set(), []
    for r in rows:
        k = repr(sorted(r.items()))
        if k not in seen:
            seen.add(k)
            out.append(r)
    # histories: every sequence of <= 3 calls in ONE process over {directory A, directory B, no directory}
    # (module-level state of the driver must not leak from one call into the next)
    for L in ((1, 2, 3) if tier == "quick" else (1, 2, 3, 4)):
        for seq in itertools.product(("A", "B", "-"), repeat=L):
            out.append(dict(kind="history", seq="".join(seq)))
    return out


def _pristine_module_state():
    """Every case starts from the module-level state a fresh interpreter has (cases share worker processes; what one
    call leaks into the next is the subject of the `history` cases, not of the order in which cases were scheduled)."""
    import sys
    import nifty.cl  # noqa
    m = sys.modules.get("nifty.cl.minimization.optimize_kl")
    for name in ("_output_directory", "_save_strategy"):
        if m is not None and hasattr(m, name):
            setattr(m, name, None)


def _tree_bytes(root):
    out = {}
    for d, _, files in os.walk(root):
        for f in files:
            p = os.path.join(d, f)
            out[os.path.relpath(p, root)] = open(p, "rb").read()
    return out


def _run_history(case):
    """Calls of optimize_kl one after the other in one process: each must behave as if it were the first."""
    import nifty.cl as ift
    from vf import models_cl
    models_cl.quiet()
    lh = models_cl.two_key_model()
    dom = lh.domain
    pos = ift.MultiField.from_dict({"a": ift.makeField(dom["a"], np.array([0.1, -0.2, 0.3])),
                                    "b": ift.makeField(dom["b"], np.array([0.2, 0.0, -0.1]))})
    tmp = tempfile.mkdtemp(prefix="c27h_")
    dirs = {"A": os.path.join(tmp, "A"), "B": os.path.join(tmp, "B"), "-": None}
    rnd = ift.random
    state0 = rnd.getState()
    ref = None
    try:
        for step, which in enumerate(case["seq"]):
            odir = dirs[which]
            models_cl.reset_random()
            mini, ic_samp = models_cl.minimizers(2)
            before = {k: _tree_bytes(v) for k, v in dirs.items() if v is not None and os.path.isdir(v)}
            try:
                sl = ift.optimize_kl(lh, 2, 2, mini, ic_samp, output_directory=odir, initial_position=pos, comm=None)
            except Exception as e:
                return bad("call %d of the sequence %s (output directory %s) raised %s: %s" % (
                    step + 1, case["seq"], which, type(e).__name__, str(e)[:150]),
                    finding_key="history|raises|%s|after-%s" % (which, case["seq"][:step][-1:] or "none"))
            dig = models_cl.samplelist_digest(sl)
            if ref is None:
                ref = dig
            elif dig != ref:
                return bad("call %d of the sequence %s returns other samples than the same call made first" % (
                    step + 1, case["seq"]), finding_key="history|result-differs|%s" % which)
            for k, v in dirs.items():
                if v is None or k == which:
                    continue
                now = _tree_bytes(v) if os.path.isdir(v) else {}
                if now != before.get(k, {}):
                    ch = sorted(set(now) ^ set(before.get(k, {})) | {f for f in now if before.get(k, {}).get(f) != now[f]})
                    return bad("call %d of the sequence %s (output directory %s) modified files of the EARLIER output "
                               "directory %s: %s" % (step + 1, case["seq"], which, k, ch[:4]),
                               finding_key="history|writes-into-earlier-directory|now=%s" % which)
            if odir is not None:
                if open(os.path.join(odir, "last_finished_iteration")).read().strip() != "1":
                    return bad("marker of call %d wrong" % (step + 1), finding_key="history|marker")
                if "latest.0.pickle" not in os.listdir(os.path.join(odir, "pickle")):
                    return bad("samples of call %d missing" % (step + 1), finding_key="history|files-missing")
    finally:
        rnd.setState(state0)
        shutil.rmtree(tmp, ignore_errors=True)
    return ok(nontrivial=len(set(case["seq"])) > 1, outcome="history|%s" % ("mixed" if len(set(case["seq"])) > 1 else "same"))


def run(case):
    import warnings
    warnings.simplefilter("ignore")
    import matplotlib
    matplotlib.use("Agg")
    import nifty.cl as ift
    from vf import models_cl
    _pristine_module_state()
    if case.get("kind") == "history":
        return _run_history(case)
    models_cl.quiet()
    models_cl.reset_random()
    c = case
    lh = models_cl.two_key_model()
    mini, ic_samp = models_cl.minimizers(2)
    total = 3
    ns = {"2": 2, "0": 0, "sched": (lambda i: [2, 0, 1][i])}[c["n_samples"]]
    nsf = ns if callable(ns) else (lambda i: ns)
    consts = ["a"] if c["constants"] else []
    pes = ["b"] if c["point_estimates"] else []
    calls = dict(inspect=[], terminate=[])
    insp = {"none": None, "arity1": (lambda sl: calls["inspect"].append(sl.n_samples)),
            "arity2": (lambda sl, i: calls["inspect"].append((sl.n_samples, i)))}[c["inspect"]]
    term = (lambda i: (calls["terminate"].append(i) or i == 1)) if c["terminate"] else None
    trans = {"none": None, "identity": (lambda i: (lambda sl: sl.average())),
             "fn_none": (lambda i: None)}[c["transitions"]]
    fresh = True if c["fresh"] == "true" else (lambda i: i != 2)
    geo = ift.NewtonCG(ift.AbsDeltaEnergyController(1e-8, iteration_limit=2)) if c["geovi"] else None
    dom = lh.domain
    pos = ift.MultiField.from_dict({"a": ift.makeField(dom["a"], np.array([0.1, -0.2, 0.3])),
                                    "b": ift.makeField(dom["b"], np.array([0.2, 0.0, -0.1]))})
    tmp = tempfile.mkdtemp(prefix="c27_") if c["outdir"] else None
    odir = os.path.join(tmp, "out") if tmp else None
    export = {"sig": ift.FieldAdapter(dom["a"], "a").exp()} if (c["export"] and odir) else {}
    rnd = ift.random
    depth0 = len(rnd._sseq)
    top0 = rnd.current_rng()
    state0 = rnd.getState()
    kw = dict(nonlinear_sampling_minimizer=geo, constants=consts, point_estimates=pes, transitions=trans,
              export_operator_outputs=export, output_directory=odir, initial_position=pos,
              inspect_callback=insp, terminate_callback=term, plot_energy_history=c["plot_energy"],
              plot_minisanity_history=c["plot_minisanity"], save_strategy=c["strategy"],
              return_final_position=c["return_pos"], sanity_checks=c["sanity"], dry_run=c["dry_run"],
              fresh_stochasticity=fresh, comm=None)
    fk = lambda what: "%s" % what   # noqa
    try:
        try:
            res = ift.optimize_kl(lh, total, ns, mini, ic_samp, **kw)
        except Exception as e:
            import traceback
            tb = traceback.extract_tb(e.__traceback__)[-1]
            return bad("optimize_kl raised %s: %s for options %s" % (type(e).__name__, str(e)[:150], c),
                       finding_key="raises|%s|%s:%s" % (type(e).__name__, os.path.basename(tb.filename), tb.name),
                       detail=traceback.format_exc()[-1500:])
        # ---- RNG stack restored
        if len(rnd._sseq) != depth0 or len(rnd._rng) != depth0:
            return bad("optimize_kl leaves %d seed sequence(s) pushed on the global RNG stack (options %s)" % (
                len(rnd._sseq) - depth0, {k: v for k, v in c.items() if k in ("dry_run", "terminate")}),
                finding_key="rng-stack-leak|dry_run=%s|terminate=%s" % (c["dry_run"], c["terminate"]))
        if rnd.current_rng() is not top0:
            return bad("current generator replaced", finding_key="rng-top-replaced")
        # ---- return type
        if c["return_pos"]:
            if not (isinstance(res, tuple) and len(res) == 2):
                return bad("return_final_position=True but result is %s" % type(res), finding_key="return-type")
            sl, mean = res
        else:
            if isinstance(res, tuple):
                return bad("return_final_position=False but a tuple is returned", finding_key="return-type")
            sl, mean = res, None
        last_it = 1 if c["terminate"] else total - 1
        if not c["dry_run"]:
            exp_n = nsf(last_it)
            exp_n = 1 if exp_n == 0 else 2 * exp_n
            if sl.n_samples != exp_n:
                return bad("result has %d samples, options imply %d" % (sl.n_samples, exp_n),
                           finding_key="sample-count")
            # constants untouched
            if c["constants"]:
                m = mean if mean is not None else sl.average()
                if not np.allclose(m["a"].asnumpy(), pos["a"].asnumpy(), rtol=0, atol=1e-12) and not c["point_estimates"] \
                        and c["transitions"] != "identity" and not c["geovi"]:
                    # with mirrored MGVI samples (or MAP) the sample mean of a constant key is its constant value; geoVI samples
                    # are not exact mirror images, so only the returned mean is demanded there
                    return bad("constant key 'a' changed during optimisation (n_samples=%s)" % c["n_samples"],
                               finding_key="constant-changed|n_samples=%s" % c["n_samples"])
                # bit-identical, except when the harness' own transition replaces the mean by the sample average
                # (round-off of (m+r + m-r)/2)
                same = np.array_equal(mean["a"].asnumpy(), pos["a"].asnumpy()) if (mean is not None and c["transitions"] != "identity") \
                    else (mean is None or np.allclose(mean["a"].asnumpy(), pos["a"].asnumpy(), rtol=0, atol=1e-12))
                if not same:
                    return bad("constant key 'a' changed in the returned mean", finding_key="constant-changed|mean")
            if c["inspect"] != "none" and len(calls["inspect"]) != last_it + 1:
                return bad("inspect callback called %d times for %d iterations" % (len(calls["inspect"]), last_it + 1),
                           finding_key="inspect-calls")
            if c["inspect"] == "arity2" and [i for _, i in calls["inspect"]] != list(range(last_it + 1)):
                return bad("inspect callback got wrong iteration indices", finding_key="inspect-index")
        # ---- files
        if odir and not c["dry_run"]:
            pk = os.path.join(odir, "pickle")
            names = set(os.listdir(pk))
            if c["strategy"] == "all":
                want = ["iteration_%d.0.pickle" % i for i in range(last_it + 1)]
            else:
                want = ["latest.0.pickle"]
            missing = [w for w in want if w not in names]
            if missing:
                return bad("expected sample files missing for strategy %s: %s" % (c["strategy"], missing),
                           finding_key="files-missing|%s" % c["strategy"])
            if c["strategy"] == "latest" and any(n.startswith("iteration_") for n in names):
                return bad("strategy latest wrote per-iteration files", finding_key="files-extra|latest")
            lf = open(os.path.join(odir, "last_finished_iteration")).read()
            if int(lf) != last_it:
                return bad("last_finished_iteration=%s, expected %d" % (lf, last_it), finding_key="marker")
            if c["export"] and not os.path.isdir(os.path.join(odir, "sig")):
                return bad("exported operator output directory missing", finding_key="export-missing")
            if c["plot_energy"] and not os.listdir(os.path.join(odir, "energy_history")):
                return bad("energy history plot missing", finding_key="plot-missing|energy")
            if c["plot_minisanity"] and c["n_samples"] != "0" and not os.listdir(os.path.join(odir, "minisanity_history")):
                return bad("minisanity history plot missing", finding_key="plot-missing|minisanity")
        # ---- resume of a finished run returns the same result without recomputation
        if c["resume_finished"] and odir and not c["dry_run"] and not c["terminate"]:
            before = models_cl.samplelist_digest(sl)
            try:
                res2 = ift.optimize_kl(lh, total, ns, mini, ic_samp, **dict(kw, resume=True))
            except Exception as e:
                return bad("resume of a finished run raised %s: %s" % (type(e).__name__, str(e)[:150]),
                           finding_key="resume-finished-raises|%s" % type(e).__name__)
            sl2 = res2[0] if c["return_pos"] else res2
            if models_cl.samplelist_digest(sl2) != before:
                return bad("resume of a finished run returns different samples", finding_key="resume-finished-differs")
            if len(rnd._sseq) != depth0:
                return bad("resume of a finished run leaves seed sequences pushed", finding_key="rng-stack-leak|resume")
    finally:
        # restore for the next case in this worker
        rnd.setState(state0)
        if tmp:
            shutil.rmtree(tmp, ignore_errors=True)
    return ok(nontrivial=not c["dry_run"],
              outcome="ok|%s|%s" % ("dry" if c["dry_run"] else "run", "dir" if c["outdir"] else "nodir"))


def finish(run):
    return dict(factors=len(FACTORS), pairwise_verified=(run.tier == "quick"))
