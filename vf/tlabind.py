"""TLC runs of models/allreduce.tla and the conformance check that binds the
model to the implementation (C23).

1. TLC checks deadlock freedom, ResultInv, Conservation for the given bounds.
2. For the conformance bounds TLC dumps its state graph; EVERY edge S -> T is
   replayed against the real `allreduce_sum` under SimComm:
     - the schedule = labels along the BFS-tree path to S, then the edge label;
       each label must be enabled in the scheduler at that point,
     - at S and at T the scheduler's enabled set must equal the model's set of
       out-edge labels (bisimulation on the reachable graph),
     - per-rank completed-operation counts must equal pc-1, channel lengths
       must agree, and in terminal states every rank's returned summation
       tree must equal the model's `res` (and the model's FixedTree).
"""
import os
import re
import shutil
import subprocess
import tempfile
import time

ROOT = os.path.dirname(os.path.dirname(os.path.abspath(__file__)))
MODEL = os.path.join(ROOT, "models", "allreduce.tla")


def parse_val(s):
    toks = re.findall(r"<<|>>|-?\d+|,", s)
    pos = 0

    def p():
        nonlocal pos
        t = toks[pos]
        if t == "<<":
            pos += 1
            items = []
            while toks[pos] != ">>":
                if toks[pos] == ",":
                    pos += 1
                    continue
                items.append(p())
            pos += 1
            return tuple(items)
        pos += 1
        return int(t)
    v = p()
    assert pos == len(toks), (s, toks[pos:])
    return v


def parse_state(label):
    label = label.replace("\\n", " ").replace("\\\\", "\\")
    parts = re.split(r"/\\\s*(\w+)\s*=", label)
    st = {}
    for i in range(1, len(parts), 2):
        st[parts[i]] = parse_val(parts[i + 1])
    return st


def parse_dot(path):
    nodes, edges = {}, []
    node_re = re.compile(r'^(-?\d+) \[label="(.*?)"[,\]]')
    edge_re = re.compile(r'^(-?\d+) -> (-?\d+) \[label="([^"]+)"')
    for line in open(path):
        line = line.strip()
        m = edge_re.match(line)
        if m:
            edges.append((m.group(1), m.group(2), m.group(3)))
            continue
        m = node_re.match(line)
        if m:
            nodes[m.group(1)] = (parse_state(m.group(2)), 'style = filled' in line)
    return nodes, edges


def run_tlc(K, N, buffered, dump=None, workers=1, timeout=1200):
    d = tempfile.mkdtemp(prefix="tlc_c23_", dir=os.environ.get("VERIF_TMP", None))
    try:
        shutil.copy(MODEL, d)
        with open(os.path.join(d, "m.cfg"), "w") as f:
            f.write("CONSTANTS K = %d\nN = %d\nBuffered = %s\nINIT Init\nNEXT Next\n"
                    "INVARIANTS ResultInv Conservation\n" % (K, N, "TRUE" if buffered else "FALSE"))
        cmd = ["tlc", "-workers", str(workers), "-noGenerateSpecTE", "-metadir", os.path.join(d, "meta"),
               "-config", "m.cfg"]
        if dump:
            cmd += ["-dump", "dot,actionlabels", os.path.join(d, "g.dot")]
        cmd += ["allreduce"]
        t0 = time.time()
        try:
            pr = subprocess.run(cmd, cwd=d, capture_output=True, text=True, timeout=timeout)
        except subprocess.TimeoutExpired:
            # a cap was hit: nothing is claimed for this configuration (reported in the evidence)
            return dict(K=K, N=N, buffered=buffered, ok=None, timed_out=True, generated=0, distinct=0,
                        wall=round(time.time() - t0, 2)), None
        out = pr.stdout + pr.stderr
        okrun = "Model checking completed. No error has been found." in out
        m = re.search(r"(\d+) states generated, (\d+) distinct states found", out)
        res = dict(K=K, N=N, buffered=buffered, ok=okrun, generated=int(m.group(1)) if m else 0,
                   distinct=int(m.group(2)) if m else 0, wall=round(time.time() - t0, 2))
        if not okrun:
            res["output"] = out[-3000:]
        graph = None
        if dump and okrun:
            graph = parse_dot(os.path.join(d, "g.dot"))
        return res, graph
    finally:
        shutil.rmtree(d, ignore_errors=True)


def tree_str(flat):
    """Polish-notation tuple -> the string the Sym summands build."""
    pos = 0

    def p():
        nonlocal pos
        t = flat[pos]
        pos += 1
        if t >= 0:
            return "abcdefghijklmnop"[t]
        l = p()
        r = p()
        return "(%s+%s)" % (l, r)
    return p()


def label_of(st):
    kind, s, d = st["last"]
    return {1: ("coll",), 2: ("rv", s - 1, d - 1), 3: ("snd", s - 1, d - 1), 4: ("rcv", s - 1, d - 1)}[kind]


def _match(en, lab):
    for i, t in enumerate(en):
        if lab[0] == "coll":
            if t[0] == "coll":
                return i
        elif tuple(t) == lab:
            return i
    return None


def _norm(en):
    return sorted(("coll",) if t[0] == "coll" else tuple(t) for t in en)


def conformance(graph, buffered):
    """Replay every edge of the model graph against the implementation."""
    from nifty.cl.utilities import allreduce_sum
    from vf import simcomm
    from vf.props.c23 import Sym
    import numpy as np
    nodes, edges = graph
    out_edges = {}
    for a, b, _ in edges:
        if a != b:
            out_edges.setdefault(a, []).append(b)
    # BFS tree from initial nodes
    parent = {}
    inits = [n for n, (st, init) in nodes.items() if st["last"] == (0, 0, 0)]
    from collections import deque
    dq = deque(inits)
    for n in inits:
        parent[n] = None
    while dq:
        a = dq.popleft()
        for b in out_edges.get(a, []):
            if b not in parent:
                parent[b] = a
                dq.append(b)
    problems = []
    if set(parent) != set(nodes):
        problems.append("unreachable nodes in dump")

    def path_labels(n):
        labs = []
        while parent[n] is not None:
            labs.append(label_of(nodes[n][0]))
            n = parent[n]
        return labs[::-1]

    sem = "buffered" if buffered else "rendezvous"
    replayed = 0
    terminal_checked = 0

    class Replayer(simcomm.Execution):
        pass

    def replay(part, labels):
        """returns list of (enabled-set-normalised, opcount, chanlens) at every
        point incl. the final one, plus results"""
        n, k = sum(part), len(part)
        offs = np.concatenate([[0], np.cumsum(part)])

        def program(rank, comm):
            mine = [Sym("abcdefghijklmnop"[i]) for i in range(offs[rank], offs[rank + 1])]
            return allreduce_sum(mine, comm)
        x = simcomm.Execution(k, program, sem, [])
        snaps = []
        x.labels = list(labels)

        # drive manually: subclass-free, reuse run() with a dynamic prefix
        class P(list):
            pass
        # translate labels to choice indices on the fly
        orig_enabled = x._enabled
        step = {"i": 0}

        def enabled_hook():
            en = orig_enabled()
            snaps.append((_norm(en), tuple(x.opcount), {k2: len(v) for k2, v in x.chan.items() if v},
                          tuple(x.finished)))
            i = step["i"]
            if i < len(labels):
                idx = _match(en, labels[i])
                if idx is None:
                    raise simcomm.ProtocolError("model label %s not enabled in implementation; enabled=%s"
                                                % (labels[i], _norm(en)))
                # reorder so that the chosen transition is first (default choice 0)
                en = [en[idx]] + en[:idx] + en[idx + 1:]
                step["i"] += 1
                return en
            # stop here: no further transitions
            return []
        x._enabled = enabled_hook
        try:
            x.run()
        except simcomm.ProtocolError as e:
            return None, str(e), None
        return snaps, None, x

    def model_summary(nid):
        st = nodes[nid][0]
        labs = sorted(label_of(nodes[b][0]) for b in set(out_edges.get(nid, [])))
        return st, labs

    for a, b, _ in edges:
        if a == b:
            continue
        stA, labsA = model_summary(a)
        stB, labsB = model_summary(b)
        part = list(stA["part"])
        labels = path_labels(a) + [label_of(stB)]
        snaps, err, x = replay(part, labels)
        replayed += 1
        if err:
            problems.append("edge %s: %s (part=%s)" % (labels, err, part))
            continue
        sa, sb = snaps[-2], snaps[-1]
        for (snap, st, labs, nm) in ((sa, stA, labsA, "source"), (sb, stB, labsB, "target")):
            if snap[0] != labs:
                problems.append("enabled sets differ at %s of edge %s part=%s: impl=%s model=%s"
                                % (nm, labels, part, snap[0], labs))
            if tuple(st["ops"]) != snap[1]:
                problems.append("op counts differ at %s of %s part=%s: impl=%s model=%s"
                                % (nm, labels, part, snap[1], tuple(st["ops"])))
            mch = {(s, d): len(st["chan"][s][d]) for s in range(len(part)) for d in range(len(part))
                   if len(st["chan"][s][d])}
            if mch != snap[2]:
                problems.append("channel occupancy differs at %s of %s: impl=%s model=%s" % (nm, labels, snap[2], mch))
        if not labsB:   # terminal state of the model: implementation must be finished with the model's result
            terminal_checked += 1
            if not all(x.finished):
                problems.append("model terminal but implementation not finished: %s part=%s" % (labels, part))
            else:
                want = [tree_str(t) for t in stB["res"]]
                got = [repr(r) for r in x.results]
                if want != got:
                    problems.append("results differ: impl=%s model=%s part=%s" % (got, want, part))
        if len(problems) > 20:
            break
    return dict(edges_replayed=replayed, nodes=len(nodes), terminal_checked=terminal_checked,
                problems=problems[:20])


def check(tier):
    """Returns (coverage dict, list of violation strings)."""
    if tier == "quick":
        plain = [(4, 8, False), (4, 8, True), (5, 7, False)]
        conf = [(3, 4, False), (3, 4, True), (4, 4, True)]
    else:
        # K=6 and (5,9,buffered) do not finish within the time cap with TLC on this model (measured);
        # the schedule explorer of the driver covers K=6 directly on the implementation
        plain = [(4, 8, False), (4, 8, True), (5, 10, False), (5, 8, True)]
        conf = [(3, 6, False), (3, 6, True), (4, 5, True), (4, 6, False)]
    runs, viol = [], []
    tot_states = tot_trans = traces = 0
    samples = []
    from concurrent.futures import ThreadPoolExecutor
    ex = ThreadPoolExecutor(8)
    tmo = 1200 if tier == "quick" else 3000
    futs_plain = [ex.submit(run_tlc, K, N, buf, None, 2 if tier == "quick" else 3, tmo) for K, N, buf in plain]
    futs_conf = [ex.submit(run_tlc, K, N, buf, True, 1, tmo) for K, N, buf in conf]
    for (K, N, buf), fu in zip(plain, futs_plain):
        res, _ = fu.result()
        runs.append(res)
        if res["ok"] is None:
            continue
        if not res["ok"]:
            viol.append("TLC reports an error for K=%d N=%d buffered=%s: %s" % (K, N, buf, res.get("output", "")[-800:]))
        tot_states += res["distinct"]
        tot_trans += res["generated"]
    for (K, N, buf), fu in zip(conf, futs_conf):
        res, graph = fu.result()
        runs.append(dict(res, dumped=True))
        if res["ok"] is None:
            continue
        if not res["ok"]:
            viol.append("TLC reports an error for K=%d N=%d buffered=%s" % (K, N, buf))
            continue
        c = conformance(graph, buf)
        res.update(conformance=dict(c, problems=len(c["problems"])))
        traces += c["edges_replayed"]
        tot_states += res["distinct"]
        tot_trans += res["generated"]
        for p in c["problems"]:
            viol.append("model/implementation mismatch (K=%d N=%d buffered=%s): %s" % (K, N, buf, p))
        samples.append(dict(K=K, N=N, buffered=buf, model_states=res["distinct"], edges_replayed=c["edges_replayed"],
                            terminal_states_checked=c["terminal_checked"]))
    return dict(tlc_runs=runs, tlc_states=tot_states, tlc_transitions=tot_trans,
                traces_validated_against_impl=traces, conformance_samples=samples), viol
