"""Dense reference-model helpers for nifty.cl objects (basis enumeration).

Every `nifty.cl` linear operator is real-linear; applying it in one mode to
every real and every imaginary unit vector of its input space gives its exact
*real-ified* matrix R with  [Re y; Im y] = R [Re x; Im x].  This decides an
identity for ALL inputs, not for the points visited.

Conventions
  flatten(field)     -> 1-D complex128 vector (MultiField: keys in domain order)
  unflatten(dom, v)  -> Field / MultiField  (dtype: complex if v is complex)
  rmatrix(op, mode, complex_in=True) -> real matrix of shape (2m, 2n) (or (2m, n)
        when complex_in=False: only real unit vectors are applied)
  realify(M)         -> [[Re M, -Im M], [Im M, Re M]] of a complex matrix
  The adjoint w.r.t. Re<y, A x> of a real-ified matrix is its transpose.
"""
import numpy as np


def _ift():
    import nifty.cl as ift
    return ift


def dom_size(dom):
    ift = _ift()
    if isinstance(dom, ift.MultiDomain):
        return sum(dom[k].size for k in dom.keys())
    return dom.size


def flatten(fld):
    ift = _ift()
    if isinstance(fld, ift.MultiField):
        parts = [np.asarray(fld[k].asnumpy()).reshape(-1) for k in fld.domain.keys()]
        return np.concatenate(parts).astype(np.complex128) if parts else np.zeros(0, np.complex128)
    return np.asarray(fld.asnumpy()).reshape(-1).astype(np.complex128)


def unflatten(dom, vec, force_real=False):
    ift = _ift()
    vec = np.asarray(vec)
    if force_real:
        vec = vec.real.astype(np.float64)
    if isinstance(dom, ift.MultiDomain):
        d, off = {}, 0
        for k in dom.keys():
            n = dom[k].size
            d[k] = ift.makeField(dom[k], np.array(vec[off:off + n]).reshape(dom[k].shape))
            off += n
        return ift.MultiField.from_dict(d, dom)
    return ift.makeField(dom, np.array(vec).reshape(dom.shape))


def basis(dom, complex_in=True):
    """Yield (column index, Field) for every real (and imaginary) unit vector."""
    n = dom_size(dom)
    for i in range(n):
        v = np.zeros(n, dtype=np.float64)
        v[i] = 1.
        yield i, unflatten(dom, v)
    if complex_in:
        for i in range(n):
            v = np.zeros(n, dtype=np.complex128)
            v[i] = 1j
            yield n + i, unflatten(dom, v)


def mode_domains(op, mode):
    """(input domain, output domain) of op.apply(., mode)."""
    ift = _ift()
    L = ift.LinearOperator
    if mode in (L.TIMES, L.ADJOINT_INVERSE_TIMES):
        return op.domain, op.target
    return op.target, op.domain


def rmatrix(op, mode=None, complex_in=True):
    ift = _ift()
    if mode is None:
        mode = ift.LinearOperator.TIMES
    din, dout = mode_domains(op, mode)
    n, m = dom_size(din), dom_size(dout)
    R = np.zeros((2 * m, (2 if complex_in else 1) * n))
    for j, e in basis(din, complex_in):
        y = flatten(op.apply(e, mode))
        if y.shape != (m,):
            raise AssertionError("output size %s != target size %d" % (y.shape, m))
        R[:m, j] = y.real
        R[m:, j] = y.imag
    return R


def realify(M):
    M = np.asarray(M)
    return np.block([[M.real, -M.imag], [M.imag, M.real]])


def complexify(R):
    """Inverse of realify for a complex-linear real-ified matrix; returns
    (M, is_complex_linear_residual)."""
    m2, n2 = R.shape
    m, n = m2 // 2, n2 // 2
    A, B, C, D = R[:m, :n], R[:m, n:], R[m:, :n], R[m:, n:]
    res = max(np.abs(A - D).max(initial=0.), np.abs(B + C).max(initial=0.))
    return A + 1j * C, res


def close(a, b, tol=1e-10, scale=None):
    a, b = np.asarray(a), np.asarray(b)
    if a.shape != b.shape:
        return False
    if a.size == 0:
        return True
    s = scale if scale is not None else max(1., np.abs(a).max(), np.abs(b).max())
    return bool(np.all(np.isfinite(a)) and np.all(np.isfinite(b)) and np.abs(a - b).max() <= tol * s)


def maxdiff(a, b):
    a, b = np.asarray(a), np.asarray(b)
    if a.shape != b.shape:
        return float("inf")
    if a.size == 0:
        return 0.
    return float(np.abs(a - b).max())
