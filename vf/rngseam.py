"""Owning the randomness (DESIGN 2.4).

Continuous draws are not sampled but *scripted*: every normal draw the
library makes is served from a tape xi.  Samplers in scope are linear in their
white-noise excitation, so running the code once per unit vector of the tape
gives the exact matrix L with  sample = offset + L xi, hence the exact
covariance L L^H -- a distributional property becomes an algebraic identity.

classic (nifty.cl):   with scripted_cl(tape): ...     (patches random._rng stack and push_sseq)
JAX (nifty.re):       with scripted_re(tape): ...     (patches random_like in evi / hmc / tree_math)
"""
import contextlib

import numpy as np


class Tape:
    def __init__(self, xi=None):
        self.xi = None if xi is None else np.asarray(xi, dtype=np.float64)
        self.pos = 0
        self.log = []          # (n,) per draw call

    def take(self, n):
        n = int(n)
        self.log.append(n)
        if self.xi is None:
            out = np.zeros(n)
        else:
            if self.pos + n > self.xi.size:
                raise RuntimeError("tape exhausted: need %d at %d of %d (the code is not replay-deterministic "
                                   "in its number of draws)" % (n, self.pos, self.xi.size))
            out = self.xi[self.pos:self.pos + n].copy()
        self.pos += n
        return out


class ScriptedGenerator:
    """Duck-types the part of numpy.random.Generator that nifty.cl uses for
    continuous draws.  Discrete / uniform draws are refused loudly."""

    def __init__(self, tape):
        self.tape = tape

    def normal(self, loc=0., scale=1., size=None):
        shape = () if size is None else (tuple(size) if np.ndim(size) else (int(size),))
        z = self.tape.take(int(np.prod(shape, dtype=int))).reshape(shape)
        return loc + scale * z

    def standard_normal(self, size=None, dtype=np.float64, out=None):
        return self.normal(0., 1., size).astype(dtype)

    def _refuse(self, *a, **k):
        raise NotImplementedError("ScriptedGenerator: only normal draws are scripted")

    integers = uniform = random = choice = permutation = shuffle = _refuse


@contextlib.contextmanager
def scripted_cl(tape):
    import nifty.cl as ift
    rnd = ift.random
    orig_push = rnd.push_sseq
    orig_push_seed = rnd.push_sseq_from_seed

    def push_sseq(sseq):
        rnd._sseq.append(sseq)
        rnd._rng.append(ScriptedGenerator(tape))

    def push_sseq_from_seed(seed):
        push_sseq(np.random.SeedSequence(seed))
    depth = len(rnd._sseq)
    rnd._sseq.append(np.random.SeedSequence(12345))
    rnd._rng.append(ScriptedGenerator(tape))
    rnd.push_sseq = push_sseq
    rnd.push_sseq_from_seed = push_sseq_from_seed
    try:
        yield tape
    finally:
        rnd.push_sseq = orig_push
        rnd.push_sseq_from_seed = orig_push_seed
        del rnd._sseq[depth:]
        del rnd._rng[depth:]


@contextlib.contextmanager
def scripted_re(tape):
    """Patch nifty.re's `random_like` and `jax.random.normal` (eager calls) to read the tape.

    PRNG-key semantics are kept: `random_like` splits its key into one subkey per leaf exactly as the
    library does, and two normal draws with the SAME key (and shape) return the SAME tape entries -- so a
    key that is reused for two leaves shows up as perfectly correlated rows of the exact linear map, as it
    would in reality.  Draws under a tracer (jit / vmap) are not scripted."""
    import jax
    import jax.numpy as jnp
    import nifty.re as jft
    from nifty.re.tree_math import forest_math
    import nifty.re.evi as evi
    import nifty.re.hmc as hmc

    orig_normal = jax.random.normal
    memo = tape.__dict__.setdefault("keymemo", {})
    tape.__dict__.setdefault("key_reuse", 0)

    def normal(key, shape=(), dtype=float):
        if isinstance(key, jax.core.Tracer):
            return orig_normal(key, shape, dtype)
        try:
            kd = tuple(np.asarray(jax.random.key_data(key)).ravel().tolist())
        except Exception:
            kd = tuple(np.asarray(key).ravel().tolist())
        shape = tuple(int(x) for x in (shape if np.ndim(shape) else (shape,))) if shape != () else ()
        dt = np.dtype(dtype)
        mk = (kd, shape, dt.str)
        n = int(np.prod(shape, dtype=int))
        if mk in memo:
            vals = memo[mk]
        else:
            if any(k[0] == kd for k in memo):
                tape.key_reuse += 1
            if np.issubdtype(dt, np.complexfloating):
                re = tape.take(n).reshape(shape)
                im = tape.take(n).reshape(shape)
                # jax.random.normal for complex dtype: unit total variance
                vals = (re + 1j * im) / np.sqrt(2.)
            else:
                vals = tape.take(n).reshape(shape)
            memo[mk] = vals
        return jnp.asarray(vals, dtype=dt)

    orig_random_like = forest_math.random_like

    def random_like(key, primals, rng=None):
        if rng is not None and rng is not orig_normal and rng is not normal:
            return orig_random_like(key, primals, rng)
        if isinstance(key, jax.core.Tracer):
            return orig_random_like(key, primals)
        struct = jax.tree_util.tree_structure(primals)
        subkeys = jax.tree_util.tree_unflatten(struct, jax.random.split(key, struct.num_leaves))

        def draw(k, x):
            shp = x.shape if hasattr(x, "shape") else jnp.shape(x)
            dtp = x.dtype if hasattr(x, "dtype") else np.result_type(x)
            return normal(k, tuple(shp), dtp)
        return jax.tree_util.tree_map(draw, subkeys, primals)
    saved = []
    for mod in (forest_math, evi, hmc, jft.tree_math, jft):
        if hasattr(mod, "random_like"):
            saved.append((mod, "random_like", mod.random_like))
            mod.random_like = random_like
    saved.append((jax.random, "normal", orig_normal))
    jax.random.normal = normal
    try:
        yield tape
    finally:
        for mod, name, f in saved:
            setattr(mod, name, f)


def measure(fn, ctx=scripted_cl):
    """Run fn once on a zero tape: returns (number of scripted scalars, fn result)."""
    t = Tape(None)
    with ctx(t):
        res = fn()
    return t.pos, res, list(t.log)


def linear_map(fn, flat, ctx=scripted_cl, check_linearity=True):
    """fn() -> object; flat(object) -> 1-D (complex) vector.
    Returns (offset, L, n, lin_residual) with flat(fn()) = offset + L xi exactly
    if fn is linear in its excitation (lin_residual measures the violation on
    the probes e_i + e_j and 2 e_i)."""
    n, res0, log = measure(fn, ctx)
    off = np.asarray(flat(res0))
    L = np.zeros((off.size, n), dtype=np.complex128)
    for i in range(n):
        xi = np.zeros(n)
        xi[i] = 1.
        t = Tape(xi)
        with ctx(t):
            r = fn()
        if t.pos != n:
            raise RuntimeError("number of draws depends on the drawn values (%d vs %d)" % (t.pos, n))
        L[:, i] = np.asarray(flat(r)) - off
    resid = 0.
    if check_linearity and n > 0:
        probes = []
        for i in range(min(n, 4)):
            xi = np.zeros(n)
            xi[i] = 2.
            probes.append(xi)
        for i in range(min(n - 1, 3)):
            xi = np.zeros(n)
            xi[i] = 1.
            xi[-1 - i] += -1.5
            probes.append(xi)
        for xi in probes:
            t = Tape(xi)
            with ctx(t):
                r = fn()
            resid = max(resid, float(np.abs(np.asarray(flat(r)) - off - L @ xi).max(initial=0.)))
    if np.abs(L.imag).max(initial=0.) == 0:
        L = L.real
    return off, L, n, resid
