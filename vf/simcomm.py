"""Controlled communicator + exhaustive schedule explorer (mode S).

`SimComm` offers exactly the communicator surface NIFTy uses (Get_rank,
Get_size, allgather, allreduce, bcast, Bcast, send, recv, Send, Recv, Barrier).
Ranks are threads that hold a baton: exactly one runs at a time, and every
communicator call posts a request and yields to the scheduler, which owns every
scheduling decision.

Transitions of the scheduler
  rendezvous semantics : ("rv", s, r)   a posted send s->r matched with a posted recv r<-s
  buffered semantics   : ("snd", s, r)  a posted send completes into FIFO channel (s, r)
                         ("rcv", s, r)  a posted recv r<-s takes the head of channel (s, r)
  both                 : ("coll", kind) every rank has posted the same collective

"no enabled transition and some rank unfinished" = deadlock.
"""
import copy
import pickle
import threading
import _thread

import numpy as np

try:
    import greenlet as _greenlet
except ImportError:  # pragma: no cover
    _greenlet = None


FORCE_THREADS = False
ANY_SOURCE = -1


class SimAbort(BaseException):
    pass


class Deadlock(Exception):
    pass


class ProtocolError(Exception):
    pass


def _clone(x):
    # mpi4py's lower-case API pickles; mirror that (catches aliasing bugs and
    # unpicklable payloads)
    return pickle.loads(pickle.dumps(x))


class _BinSem:
    __slots__ = ("l",)

    def __init__(self):
        self.l = _thread.allocate_lock()
        self.l.acquire()

    def release(self):
        self.l.release()

    def acquire(self):
        self.l.acquire()


class _Req:
    __slots__ = ("kind", "peer", "payload", "root", "result", "label")

    def __init__(self, kind, peer=None, payload=None, root=None):
        self.kind, self.peer, self.payload, self.root = kind, peer, payload, root
        self.result = None


class SimComm:
    def __init__(self, sim, rank):
        self._sim, self._rank = sim, rank

    def Get_rank(self):
        return self._rank

    def Get_size(self):
        return self._sim.k

    # ---- point to point
    def send(self, obj, dest, tag=0):
        self._sim._post(self._rank, _Req("send", peer=int(dest), payload=("obj", _clone(obj))))

    def recv(self, buf=None, source=None, tag=0):
        # mpi4py's default is MPI.ANY_SOURCE: the receive matches a message from ANY rank (a scheduling choice)
        r = self._sim._post(self._rank, _Req("recv", peer=ANY_SOURCE if source is None or source < 0 else int(source)))
        typ, val = r
        if typ != "obj":
            raise ProtocolError("recv matched a buffer Send")
        return val

    def Send(self, buf, dest, tag=0):
        arr = np.array(buf, copy=True)
        self._sim._post(self._rank, _Req("send", peer=int(dest), payload=("buf", arr)))

    def Recv(self, buf, source=None, tag=0):
        typ, val = self._sim._post(self._rank, _Req("recv", peer=ANY_SOURCE if source is None or source < 0 else int(source)))
        if typ != "buf":
            raise ProtocolError("Recv matched an object send")
        if val.shape != buf.shape or val.dtype != buf.dtype:
            raise ProtocolError("Recv buffer mismatch %s%s vs %s%s" % (val.shape, val.dtype, buf.shape, buf.dtype))
        buf[...] = val

    # ---- collectives
    def allgather(self, obj):
        return self._sim._post(self._rank, _Req("allgather", payload=_clone(obj)))

    def allreduce(self, obj, op=None):
        if op is not None:
            raise ProtocolError("only the default (SUM) allreduce is modelled")
        return self._sim._post(self._rank, _Req("allreduce", payload=_clone(obj)))

    def bcast(self, obj=None, root=0):
        return self._sim._post(self._rank, _Req("bcast", payload=_clone(obj), root=int(root)))

    def Bcast(self, buf, root=0):
        res = self._sim._post(self._rank, _Req("Bcast", payload=np.array(buf, copy=True), root=int(root)))
        if self._rank != root:
            if res.shape != buf.shape or res.dtype != buf.dtype:
                raise ProtocolError("Bcast buffer mismatch")
            buf[...] = res

    def Barrier(self):
        self._sim._post(self._rank, _Req("Barrier"))

    barrier = Barrier


class Execution:
    """One complete execution under a given schedule prefix."""

    def __init__(self, k, program, semantics, prefix, record_states=True, switch_in=None, switch_out=None,
                 hooks_factory=None):
        """switch_in(rank) / switch_out(rank): called whenever a rank gets / gives up the
        baton -- used to emulate per-process global state (e.g. nifty.cl.random) per rank."""
        self.k, self.program, self.semantics = k, program, semantics
        self.switch_in, self.switch_out = switch_in, switch_out
        if hooks_factory is not None:      # fresh per-rank state for every execution
            self.switch_in, self.switch_out = hooks_factory()
        self.prefix = list(prefix)
        self.green = _greenlet is not None and not FORCE_THREADS
        # raw locks used as binary semaphores (threading.Semaphore is ~50x slower)
        self.sems = [_BinSem() for _ in range(k)]
        self.sched_sem = _BinSem()
        self.pending = [None] * k
        self.finished = [False] * k
        self.results = [None] * k
        self.errors = [None] * k
        self.opcount = [0] * k
        self.rank_trace = [[] for _ in range(k)]
        self.chan = {}
        self.abort = False
        self.points = []     # (state_key, enabled labels)
        self.choices = []
        self.transitions = []
        self.deadlock = False
        self.msgs = 0

    # called from rank threads / greenlets
    def _post(self, rank, req):
        self.pending[rank] = req
        self.rank_trace[rank].append((req.kind, req.peer if req.peer is not None else req.root))
        if self.green:
            if self.switch_out:
                self.switch_out(rank)
            self.main_gl.switch()
            if self.switch_in:
                self.switch_in(rank)
        else:
            self.sched_sem.release()
            self.sems[rank].acquire()
        if self.abort:
            raise SimAbort()
        self.opcount[rank] += 1
        return req.result

    def _green_body(self, rank):
        if self.switch_in:
            self.switch_in(rank)
        try:
            self.results[rank] = self.program(rank, SimComm(self, rank))
        except SimAbort:
            pass
        except BaseException as e:  # noqa
            self.errors[rank] = e
        if self.switch_out:
            self.switch_out(rank)
        self.finished[rank] = True
        self.pending[rank] = None

    def _thread(self, rank):
        self.sems[rank].acquire()
        try:
            if not self.abort:
                self.results[rank] = self.program(rank, SimComm(self, rank))
        except SimAbort:
            pass
        except BaseException as e:  # noqa
            self.errors[rank] = e
        self.finished[rank] = True
        self.pending[rank] = None
        if not self.abort:
            self.sched_sem.release()

    def _resume(self, rank):
        self.pending[rank] = None
        if self.green:
            self.gls[rank].switch()
            return
        self.sems[rank].release()
        self.sched_sem.acquire()

    def _enabled(self):
        en = []
        p = self.pending
        live = [r for r in range(self.k) if not self.finished[r]]
        # collectives
        colls = [r for r in live if p[r] is not None and p[r].kind in
                 ("allgather", "allreduce", "bcast", "Bcast", "Barrier")]
        if len(colls) == self.k:
            kinds = {(p[r].kind, p[r].root) for r in range(self.k)}
            if len(kinds) != 1:
                raise ProtocolError("mismatching collectives %s" % sorted(map(str, kinds)))
            en.append(("coll", p[0].kind))
        for r in live:
            q = p[r]
            if q is None:
                continue
            if self.semantics == "rendezvous":
                if q.kind == "send":
                    d = q.peer
                    if (not self.finished[d]) and p[d] is not None and p[d].kind == "recv" and p[d].peer in (r, ANY_SOURCE):
                        en.append(("rv", r, d))
            else:
                if q.kind == "send":
                    en.append(("snd", r, q.peer))
                elif q.kind == "recv":
                    if q.peer == ANY_SOURCE:
                        for s_ in range(self.k):
                            if self.chan.get((s_, r)):
                                en.append(("rcv", s_, r))
                    elif self.chan.get((q.peer, r)):
                        en.append(("rcv", q.peer, r))
        return en

    def _state_key(self):
        pend = tuple((q.kind, q.peer, q.root) if q is not None else None for q in self.pending)
        ch = tuple(sorted((k, len(v)) for k, v in self.chan.items() if v))
        return (tuple(self.opcount), tuple(self.finished), pend, ch)

    def _fire(self, t):
        p = self.pending
        if t[0] == "coll":
            kind = t[1]
            reqs = list(p)
            if kind == "allgather":
                vals = [q.payload for q in reqs]
                for q in reqs:
                    q.result = _clone(vals)
            elif kind == "allreduce":
                acc = reqs[0].payload
                for q in reqs[1:]:
                    acc = acc + q.payload
                for q in reqs:
                    q.result = _clone(acc)
            elif kind in ("bcast", "Bcast"):
                root = reqs[0].root
                for q in reqs:
                    q.result = _clone(reqs[root].payload)
            for r in range(self.k):
                self._resume(r)
        elif t[0] == "rv":
            s, d = t[1], t[2]
            p[d].result = p[s].payload
            self.msgs += 1
            self._resume(s)
            self._resume(d)
        elif t[0] == "snd":
            s, d = t[1], t[2]
            self.chan.setdefault((s, d), []).append(p[s].payload)
            self._resume(s)
        elif t[0] == "rcv":
            s, d = t[1], t[2]
            p[d].result = self.chan[(s, d)].pop(0)
            self.msgs += 1
            self._resume(d)

    def run(self):
        ths = []
        if self.green:
            self.main_gl = _greenlet.getcurrent()
            self.gls = [_greenlet.greenlet(lambda r=r: self._green_body(r), parent=self.main_gl)
                        for r in range(self.k)]
        else:
            ths = [threading.Thread(target=self._thread, args=(r,), daemon=True) for r in range(self.k)]
            for t in ths:
                t.start()
        try:
            for r in range(self.k):
                if self.green:
                    self.gls[r].switch()
                else:
                    self.sems[r].release()
                    self.sched_sem.acquire()
            i = 0
            while True:
                if any(e is not None for e in self.errors):
                    break
                en = self._enabled()
                if not en:
                    if not all(self.finished):
                        self.deadlock = True
                    break
                self.points.append((self._state_key(), en))
                c = self.prefix[i] if i < len(self.prefix) else 0
                if c >= len(en):
                    raise ProtocolError("schedule prefix diverged: choice %d of %d at step %d" % (c, len(en), i))
                self.choices.append(c)
                self.transitions.append(en[c])
                self._fire(en[c])
                i += 1
        finally:
            # release whoever is still blocked
            self.abort = True
            for r in range(self.k):
                if not self.finished[r]:
                    if self.green:
                        self.gls[r].switch()   # raises SimAbort inside the rank
                    else:
                        self.sems[r].release()
            for t in ths:
                t.join(timeout=10)
        leftover = {k: len(v) for k, v in self.chan.items() if v}
        self.leftover = leftover
        return self


def explore(k, program, semantics, check, state_matching=True, max_exec=None, max_deviations=None, **exec_kw):
    """All interleavings (DFS, re-execution from scratch, optional state
    matching).  `check(execution)` -> None or violation string.  Returns stats."""
    stack = [[]]
    seen = set()
    stats = dict(executions=0, states=0, transitions=0, deadlocks=0, max_enabled=0,
                 outcomes=set(), violations=[], capped=False, rank_traces=set())
    while stack:
        if max_exec is not None and stats["executions"] >= max_exec:
            stats["capped"] = True
            break
        prefix = stack.pop()
        x = Execution(k, program, semantics, prefix, **exec_kw).run()
        stats["executions"] += 1
        v = check(x)
        if v:
            stats["violations"].append(dict(what=v, schedule=list(x.choices),
                                            transitions=[list(map(str, t)) for t in x.transitions]))
        if x.deadlock:
            stats["deadlocks"] += 1
        stats["rank_traces"].add(repr(x.rank_trace))
        for i in range(len(prefix), len(x.points)):
            sk, en = x.points[i]
            if state_matching:
                if sk in seen:
                    break
                seen.add(sk)
            stats["states"] += 1
            stats["transitions"] += len(en)
            stats["max_enabled"] = max(stats["max_enabled"], len(en))
            if max_deviations is not None and sum(1 for c in x.choices[:i] if c != 0) >= max_deviations:
                continue     # deviation bound: no further departure from the default schedule
            for alt in range(len(en) - 1, 0, -1):
                stack.append(x.choices[:i] + [alt])
    return stats
