"""Reference model for C15 (nifty.re conjugate gradients).

Dense numpy only: generated Hermitian systems with known spectrum (positive
definite, indefinite, negative definite, singular), energies / residuals,
exact CG iterates (Krylov-subspace minimisers, from vf.ref.c14_sys), the
documented stopping rule evaluated on true quantities, and a textbook CG
(Nocedal & Wright alg. 5.2) used only to find the iteration at which a
non-positive curvature direction first appears.
"""
import numpy as np

from vf.ref import c14_sys as S

EPS = np.finfo(np.float64).eps
HPD_SPECTRA = ["identity", "clusters2", "repeated3", "geo10", "geo1e3"]

NONPD = {
    # name: eigenvalues for n = 2, 3 (5: padded with 1.5, 2.5)
    "neg_one": [-2., 1., 1.5],
    "negdef": [-1., -2., -3.],
    "indef_small": [-0.5, 1., 3.],
    "singular": [0., 1., 2.],
}


LONG_SPECTRA = {24: ["lin100", "geo1e2", "geo1e3", "geo1e4"], 32: ["lin100", "geo1e2"], 40: ["lin100", "geo1e2"]}


def long_spectrum(name, n):
    """moderately conditioned spectra of size 24-40 on which CG needs 20-50 iterations (1-2 residual resets)"""
    i = np.arange(n)
    if name == "lin100":
        return 1. + 99. * i / (n - 1)
    return float(name[3:]) ** (i / (n - 1) - 0.5)


def spectra(n):
    seen, out = set(), []
    for s in HPD_SPECTRA:
        key = tuple(np.round(S.spectrum(s, n), 12))
        if key not in seen:
            seen.add(key)
            out.append(s)
    return out


def nonpd_system(name, n, cplx, mixed, seed):
    lam = list(NONPD[name][:n])
    while len(lam) < n:
        lam.append((-1. if name == "negdef" else 1.) * (1.5 + len(lam)))
    lam = np.array(lam)
    U = S.mixing(n, cplx, seed, tag=9) if mixed else np.eye(n, dtype=np.complex128 if cplx else np.float64)
    return S.hpd(lam, U), lam, U


def nonpd_rhs(name, n, cplx, lam, U, seed):
    """rhs alphabet in terms of eigenvectors; index 0 = most negative / zero eigenvalue"""
    dt = np.complex128 if cplx else np.float64
    pos = [i for i in range(n) if lam[i] > 0]
    if name == "eneg":                      # first direction has negative (zero) curvature
        v = U[:, 0]
    elif name == "epos":                    # never sees the bad direction
        if not pos:
            return None
        v = U[:, pos[0]]
    elif name == "mix_first":               # dominated by the bad direction
        v = U[:, 0] + (0.3 * U[:, pos[0]] if pos else 0.3 * U[:, n - 1])
    elif name == "mix_late":                # first curvature positive, bad curvature appears later
        if len(pos) < 1:
            return None
        v = sum((1. / (1 + k)) * U[:, i] for k, i in enumerate(pos)) + 0.3 * U[:, 0]
    elif name == "gen":
        v = S.vector("gen", n, cplx, U, seed, tag=4)
    else:
        raise ValueError(name)
    return np.asarray(v, dtype=dt)


def textbook_cg_first_bad_curvature(A, j, x0, kmax=50):
    """Plain CG on A x = j from x0; returns (i_bad, curv, converged_before) where i_bad is the 1-based
    iteration whose direction d has d^H A d <= tol (None if the residual vanishes first)."""
    x = x0.copy()
    r = A @ x - j
    d = r.copy()
    g = np.vdot(r, r).real
    nj = max(np.linalg.norm(j), np.linalg.norm(r), 1e-300)
    scale = np.abs(np.linalg.eigvalsh(A)).max()
    for i in range(1, kmax + 1):
        if np.sqrt(g) <= 1e-13 * nj:
            return None, None, True
        q = A @ d
        curv = np.vdot(d, q).real
        if curv <= 1e-12 * scale * np.vdot(d, d).real:
            return i, curv, False
        al = g / curv
        x = x - al * d
        r = r - al * q
        g2 = np.vdot(r, r).real
        d = d * (g2 / g) + r
        g = g2
    return None, None, False


def effective(n, miniter, maxiter):
    """the documented defaults (taken from the docstring-less code comments: SciPy conventions)"""
    fallback = 20 * n
    mi = min(6, maxiter if maxiter is not None else fallback) if miniter is None else miniter
    ma = max(min(200, fallback), mi) if maxiter is None else maxiter
    return mi, ma


def effective_resnorm(cfg, j):
    if cfg.get("absdelta") is None and cfg.get("resnorm") is None:
        return max(cfg.get("tol", 1e-5) * np.linalg.norm(j), cfg.get("atol", 0.))
    return cfg.get("resnorm")


def slacks(A, lam, j, x0, x=None):
    """round-off allowances for residual norms / energies (recurred vs true residual: O(eps |A| max|x_k|))"""
    al = np.abs(lam)
    kappa = al.max() / max(al.min(), 1e-3)
    xs = np.linalg.lstsq(A, j, rcond=None)[0]
    sx = max(np.linalg.norm(xs), np.linalg.norm(x0), 0. if x is None else np.linalg.norm(x)) + 1e-300
    nb = np.linalg.norm(j)
    sg = 1e3 * EPS * (nb + al.max() * sx) + 1e-300
    sE = 1e3 * EPS * (nb * sx + al.max() * sx * sx) + 1e-300
    return sg, sE, kappa
