"""Reference models of the data distributions behind the likelihood energies
(used by C11 and C12).  Deliberately boring and independent of NIFTy:

  family.outcomes(theta) -> (D [K, data_dim], w [K])
        EVERY data outcome with its probability (discrete data; Poisson
        truncated where the neglected tail mass is < 1e-14), or the nodes and
        weights of a tensor Gauss quadrature in data space that is EXACT for
        the polynomial integrands occurring (score, score x score, Hessian).
  family.nlp(theta, d)   -> jax scalar, the textbook -log pdf (jax.scipy.stats)
  family.logpdf(theta,D) -> [K] log pdf/pmf of every outcome, scipy.stats (numpy)
  family.score(theta, D) -> [K, theta_dim] hand-written gradient of -log pdf w.r.t.
                            theta (numpy; validated against jax.grad(nlp) by the
                            drivers' "refcheck" cases)
  family.fisher(theta)   -> closed-form Fisher information matrix (numpy)
  family.tangent(theta)  -> None, or a basis T of the tangent space of the
                            parameter manifold (categorical: simplex), on which
                            the Fisher bilinear form is defined

theta and d are flat REAL vectors (complex quantities are [Re..., Im...]).
jax is imported inside functions only.
"""
import itertools
import math

import numpy as np
import scipy.special as sp
import scipy.stats as st

LOG2PI = math.log(2. * math.pi)


def _jnp():
    import jax.numpy as jnp
    return jnp


def _jstats():
    import jax.scipy.stats as js
    return js


def tensor(nodes_weights):
    """Tensor product of 1-D rules [(x_j, w_j)] -> (X [K, dim], W [K])."""
    xs = [np.asarray(x, dtype=np.float64) for x, _ in nodes_weights]
    ws = [np.asarray(w, dtype=np.float64) for _, w in nodes_weights]
    if not xs:
        return np.zeros((1, 0)), np.ones(1)
    X = np.array(list(itertools.product(*xs)), dtype=np.float64).reshape(-1, len(xs))
    W = np.array([np.prod(c) for c in itertools.product(*ws)], dtype=np.float64)
    return X, W


def gauss_hermite(n):
    """Probabilists' Gauss-Hermite rule for N(0,1); exact to degree 2n-1."""
    x, w = sp.roots_hermitenorm(n)
    return x, w / math.sqrt(2. * math.pi)


class Family:
    name = "?"
    theta_dim = 0
    data_dim = 0
    discrete = False

    def tangent(self, theta):
        return None


class Gauss(Family):
    """d ~ N(theta, P^-1) on R^m (complex data: real-ified, m = 2n)."""
    name = "gauss"

    def __init__(self, P):
        self.P = np.asarray(P, dtype=np.float64)
        self.cov = np.linalg.inv(self.P)
        self.cov = 0.5 * (self.cov + self.cov.T)
        self.L = np.linalg.cholesky(self.cov)
        self.theta_dim = self.data_dim = self.P.shape[0]

    def outcomes(self, theta, order=2):
        # the score is linear in d: score x score has degree 2 <= 2*order-1
        Z, W = tensor([gauss_hermite(order)] * self.data_dim)
        return np.asarray(theta)[None, :] + Z @ self.L.T, W

    def nlp(self, theta, d):
        return -_jstats().multivariate_normal.logpdf(d, theta, _jnp().asarray(self.cov))

    def logpdf(self, theta, D):
        return np.atleast_1d(st.multivariate_normal(mean=np.zeros(self.data_dim), cov=self.cov).logpdf(
            np.asarray(D) - np.asarray(theta)[None, :]))

    def score(self, theta, D):
        return -(np.asarray(D) - np.asarray(theta)[None, :]) @ self.P.T

    def fisher(self, theta):
        return self.P.copy()


class Poisson(Family):
    name = "poisson"
    discrete = True

    def __init__(self, n):
        self.theta_dim = self.data_dim = n

    @staticmethod
    def cut(lam):
        # smallest K with P(d > K) < 1e-16 and the (d/lam-1)^2-weighted tail negligible as well
        K = int(lam) + 1
        while st.poisson.sf(K, lam) * (1. + (K / lam) ** 2) > 1e-16:
            K += 1
        return K + 1

    def outcomes(self, theta):
        rules = []
        self.tail = 0.
        for lam in np.asarray(theta):
            K = self.cut(lam)
            ks = np.arange(K + 1)
            rules.append((ks, st.poisson.pmf(ks, lam)))
            self.tail += float(st.poisson.sf(K, lam))
        assert self.tail < 1e-14
        return tensor(rules)

    def nlp(self, theta, d):
        return -_jstats().poisson.logpmf(d, theta).sum()

    def logpdf(self, theta, D):
        return st.poisson.logpmf(np.asarray(D), np.asarray(theta)[None, :]).sum(axis=1)

    def score(self, theta, D):
        return 1. - np.asarray(D) / np.asarray(theta)[None, :]

    def fisher(self, theta):
        return np.diag(1. / np.asarray(theta))


class Bernoulli(Family):
    name = "bernoulli"
    discrete = True

    def __init__(self, n):
        self.theta_dim = self.data_dim = n

    def outcomes(self, theta):
        return tensor([(np.array([0., 1.]), np.array([1. - p, p])) for p in np.asarray(theta)])

    def nlp(self, theta, d):
        return -_jstats().bernoulli.logpmf(d, theta).sum()

    def logpdf(self, theta, D):
        return st.bernoulli.logpmf(np.asarray(D).astype(int), np.asarray(theta)[None, :]).sum(axis=1)

    def score(self, theta, D):
        p, D = np.asarray(theta)[None, :], np.asarray(D)
        return -D / p + (1. - D) / (1. - p)

    def fisher(self, theta):
        p = np.asarray(theta)
        return np.diag(1. / (p * (1. - p)))


class StudentT(Family):
    """d_i = theta_i + t,  t ~ Student-t with nu_i degrees of freedom, unit scale.
    Quadrature: u = t/sqrt(nu+t^2) in (-1,1) turns E[.] into a Gauss-Jacobi
    integral with weight (1-u^2)^(nu/2-1); score^2 and the Hessian are
    polynomials of degree 4 in u, so a 4-node rule is exact."""
    name = "studentt"

    def __init__(self, nu):
        self.nu = np.atleast_1d(np.asarray(nu, dtype=np.float64))
        self.theta_dim = self.data_dim = self.nu.size

    def outcomes(self, theta, order=4):
        rules = []
        for f, nu in zip(np.asarray(theta), self.nu):
            u, w = sp.roots_jacobi(order, nu / 2. - 1., nu / 2. - 1.)
            w = w / w.sum()
            rules.append((f + math.sqrt(nu) * u / np.sqrt(1. - u * u), w))
        return tensor(rules)

    def nlp(self, theta, d):
        return -_jstats().t.logpdf(d, _jnp().asarray(self.nu), loc=theta).sum()

    def logpdf(self, theta, D):
        return st.t.logpdf(np.asarray(D), self.nu[None, :], loc=np.asarray(theta)[None, :]).sum(axis=1)

    def score(self, theta, D):
        r = np.asarray(D) - np.asarray(theta)[None, :]
        return -(self.nu + 1.) * r / (self.nu + r * r)

    def fisher(self, theta):
        return np.diag((self.nu + 1.) / (self.nu + 3.))


class GammaScale(Family):
    """beta_i ~ Gamma(shape k_i, scale theta_i): the data model behind
    InverseGammaEnergy(beta, alpha) with k = alpha + 1 (docstring: beta =
    0.5|s|^2 with s ~ N(0, theta) gives k = 1/2).  Generalised Gauss-Laguerre
    (the score is linear in beta: 3 nodes are exact for score x score)."""
    name = "gammascale"

    def __init__(self, k):
        self.k = np.atleast_1d(np.asarray(k, dtype=np.float64))
        self.theta_dim = self.data_dim = self.k.size

    def outcomes(self, theta, order=3):
        rules = []
        for x, k in zip(np.asarray(theta), self.k):
            t, w = sp.roots_genlaguerre(order, k - 1.)
            rules.append((x * t, w / w.sum()))
        return tensor(rules)

    def nlp(self, theta, d):
        return -_jstats().gamma.logpdf(d, _jnp().asarray(self.k), scale=theta).sum()

    def logpdf(self, theta, D):
        return st.gamma.logpdf(np.asarray(D), self.k[None, :], scale=np.asarray(theta)[None, :]).sum(axis=1)

    def score(self, theta, D):
        x = np.asarray(theta)[None, :]
        return self.k / x - np.asarray(D) / x ** 2

    def fisher(self, theta):
        return np.diag(self.k / np.asarray(theta) ** 2)


class Categorical(Family):
    """npix independent one-hot draws over ncat categories.  theta = the
    probabilities flattened in C order of `shape` with the category axis
    `axis` (normalised along it); data = one-hot array flattened the same way.
    The Fisher matrix is the one of the coordinates x themselves,
    E[score score^T] = diag(1/x), evaluated on the simplex."""
    name = "categorical"
    discrete = True

    def __init__(self, shape, axis):
        self.shape, self.axis = tuple(shape), axis
        self.theta_dim = self.data_dim = int(np.prod(shape))
        self.ncat = self.shape[axis]
        self.npix = self.theta_dim // self.ncat

    def _rows(self, v):
        """-> [npix, ncat] view of a flat vector."""
        return np.moveaxis(np.asarray(v).reshape(self.shape), self.axis, -1).reshape(self.npix, self.ncat)

    def outcomes(self, theta):
        P = self._rows(theta)
        D, W = [], []
        for cats in itertools.product(range(self.ncat), repeat=self.npix):
            oh = np.zeros((self.npix, self.ncat))
            w = 1.
            for r, c in enumerate(cats):
                oh[r, c] = 1.
                w *= P[r, c]
            full = np.moveaxis(oh.reshape(tuple(s for i, s in enumerate(self.shape) if i != self.axis % len(self.shape))
                                          + (self.ncat,)), -1, self.axis)
            D.append(full.reshape(-1))
            W.append(w)
        return np.array(D), np.array(W)

    def nlp(self, theta, d):
        jnp = _jnp()
        from jax.scipy.special import xlogy
        return -xlogy(d, theta).sum()

    def logpdf(self, theta, D):
        P = self._rows(theta)
        return np.array([sum(st.multinomial.logpmf(self._rows(d)[r].astype(int), 1, P[r]) for r in range(self.npix))
                         for d in np.asarray(D)])

    def score(self, theta, D):
        return -np.asarray(D) / np.asarray(theta)[None, :]

    def tangent(self, theta):
        """e_c - e_last for every pixel row and every category c < last."""
        idx = np.moveaxis(np.arange(self.theta_dim).reshape(self.shape), self.axis, -1).reshape(self.npix, self.ncat)
        cols = []
        for r in range(self.npix):
            for c in range(self.ncat - 1):
                v = np.zeros(self.theta_dim)
                v[idx[r, c]], v[idx[r, -1]] = 1., -1.
                cols.append(v)
        return np.array(cols).T

    def fisher(self, theta):
        return np.diag(1. / np.asarray(theta))


class VarGauss(Family):
    """d_i ~ N(m_i, 1/i_i) with unknown mean and precision; complex data have
    independent real and imaginary parts of precision i_i each.
    theta = [m (n or 2n reals)] + [i (n)]   (mean part absent if mean_fixed:
    then d ~ N(0, 1/i), the model behind _SpecialGammaEnergy).
    data  = [Re d (n)] (+ [Im d (n)])."""
    name = "vargauss"

    def __init__(self, n, cplx=False, mean_fixed=False):
        self.n, self.cplx, self.mean_fixed = n, cplx, mean_fixed
        self.c = 2 if cplx else 1
        self.data_dim = self.c * n
        self.theta_dim = n + (0 if mean_fixed else self.c * n)

    def outcomes(self, theta, order=3):
        # score quadratic in d: score x score has degree 4 <= 2*order-1
        theta = np.asarray(theta, dtype=np.float64)
        prec = theta[-self.n:]
        mean = np.zeros(self.data_dim) if self.mean_fixed else theta[:self.data_dim]
        Z, W = tensor([gauss_hermite(order)] * self.data_dim)
        sd = np.tile(1. / np.sqrt(prec), self.c)
        return mean[None, :] + Z * sd[None, :], W

    def nlp(self, theta, d):
        jnp = _jnp()
        prec = theta[-self.n:]
        sd = jnp.tile(1. / jnp.sqrt(prec), self.c)
        mean = jnp.zeros(self.data_dim) if self.mean_fixed else theta[:self.data_dim]
        return -_jstats().norm.logpdf(d, mean, sd).sum()

    def logpdf(self, theta, D):
        theta = np.asarray(theta)
        prec = theta[-self.n:]
        sd = np.tile(1. / np.sqrt(prec), self.c)
        mean = np.zeros(self.data_dim) if self.mean_fixed else theta[:self.data_dim]
        return st.norm.logpdf(np.asarray(D), mean[None, :], sd[None, :]).sum(axis=1)

    def score(self, theta, D):
        theta, D = np.asarray(theta), np.asarray(D)
        n, c = self.n, self.c
        prec = theta[-n:]
        mean = np.zeros(self.data_dim) if self.mean_fixed else theta[:self.data_dim]
        r = D - mean[None, :]
        gm = -np.tile(prec, c)[None, :] * r
        r2 = (r * r).reshape(len(D), c, n).sum(axis=1)
        gp = 0.5 * r2 - (0.5 * c) / prec[None, :]
        return gp if self.mean_fixed else np.concatenate([gm, gp], axis=1)

    def fisher(self, theta):
        prec = np.asarray(theta)[-self.n:]
        fi = (1. if self.cplx else 0.5) / prec ** 2
        if self.mean_fixed:
            return np.diag(fi)
        return np.diag(np.concatenate([np.tile(prec, self.c), fi]))


class VarStudentT(Family):
    """d_i = m_i + s_i t, t ~ Student-t(nu): unknown location m and scale s.
    theta = [m (n), s (n)].  Closed-form Fisher: diag((nu+1)/((nu+3) s^2),
    2 nu/((nu+3) s^2)), no cross term.  Gauss-Jacobi as in StudentT (the
    scale score is a polynomial of degree 2 in u as well)."""
    name = "varstudentt"

    def __init__(self, nu, n):
        self.nu = float(nu)
        self.n = n
        self.theta_dim, self.data_dim = 2 * n, n

    def outcomes(self, theta, order=5):
        theta = np.asarray(theta)
        nu = self.nu
        rules = []
        for m, s in zip(theta[:self.n], theta[self.n:]):
            u, w = sp.roots_jacobi(order, nu / 2. - 1., nu / 2. - 1.)
            rules.append((m + s * math.sqrt(nu) * u / np.sqrt(1. - u * u), w / w.sum()))
        return tensor(rules)

    def nlp(self, theta, d):
        return -_jstats().t.logpdf(d, self.nu, loc=theta[:self.n], scale=theta[self.n:]).sum()

    def logpdf(self, theta, D):
        theta = np.asarray(theta)
        return st.t.logpdf(np.asarray(D), self.nu, loc=theta[None, :self.n], scale=theta[None, self.n:]).sum(axis=1)

    def score(self, theta, D):
        theta = np.asarray(theta)
        m, sc, nu = theta[None, :self.n], theta[None, self.n:], self.nu
        z = (np.asarray(D) - m) / sc
        q = (nu + 1.) * z / (nu + z * z)
        return np.concatenate([-q / sc, (1. - q * z) / sc], axis=1)

    def fisher(self, theta):
        s = np.asarray(theta)[self.n:]
        nu = self.nu
        return np.diag(np.concatenate([(nu + 1.) / ((nu + 3.) * s ** 2), 2. * nu / ((nu + 3.) * s ** 2)]))


# ------------------------------------------------------------------ exact expectations
def proj(M, T):
    return M if T is None else T.T @ M @ T


def fisher_enumerated(fam, theta):
    """Exact Fisher information (score form) by enumeration of every data
    outcome / exact quadrature with the hand-written numpy score."""
    D, W = fam.outcomes(theta)
    g = fam.score(theta, D)
    return np.einsum("k,ki,kj->ij", W, g, g), D, W, g


def validate(fam, theta):
    """Validate the numpy reference of one family at one parameter point
    against jax autodiff of the textbook -log pdf (jax.scipy.stats) and
    scipy.stats.  Returns dict of residuals (all should be ~1e-13)."""
    import jax
    jnp = _jnp()
    theta = np.asarray(theta, dtype=np.float64)
    Fs, D, W, g = fisher_enumerated(fam, theta)
    T = fam.tangent(theta)
    th, Dj = jnp.asarray(theta), jnp.asarray(D)
    gj = np.asarray(jax.vmap(jax.grad(fam.nlp), (None, 0))(th, Dj))
    Hj = np.asarray(jax.vmap(jax.hessian(fam.nlp), (None, 0))(th, Dj))
    vj = np.asarray(jax.vmap(fam.nlp, (None, 0))(th, Dj))
    Fh = np.einsum("k,kij->ij", W, Hj)
    Fc = fam.fisher(theta)
    sc = 1. + np.abs(Fc).max()
    Es = W @ g
    gp, gjp = (g, gj) if T is None else (g @ T, gj @ T)
    return dict(score_vs_jaxgrad=float(np.abs(gp - gjp).max() / (1. + np.abs(gjp).max())),
                nlp_vs_scipy=float(np.abs(vj + fam.logpdf(theta, D)).max() / (1. + np.abs(vj).max())),
                fisher_score_vs_closed=float(np.abs(proj(Fs - Fc, T)).max() / sc),
                fisher_hessian_vs_closed=float(np.abs(proj(Fh - Fc, T)).max() / sc),
                weights=float(abs(W.sum() - 1.)),
                mean_score=float(np.abs(Es if T is None else T.T @ Es).max() / sc),
                outcomes=len(W))
