"""Reference model for C14 (classic CG): generated HPD systems with known
spectrum, dense energies / residuals, the Krylov-subspace minimiser (what k
steps of (preconditioned) CG return in exact arithmetic), and a harness-side
dense operator / recording iteration controller.

Nothing here calls NIFTy's minimisation code; NIFTy is only used to wrap numpy
vectors into Fields (harness-side operator leaf).
"""
import numpy as np

EPS = np.finfo(np.float64).eps

SPECTRA = ["identity", "clusters2", "repeated3", "geo10", "geo1e3", "geo1e5"]


def spectrum(name, n):
    i = np.arange(n)
    if name == "identity":
        lam = np.ones(n)
    elif name == "clusters2":
        lam = np.where(i < (n + 1) // 2, 1., 3.)
    elif name == "repeated3":
        lam = np.array([0.5, 1., 2.])[i % 3]
    elif name.startswith("geo"):
        kappa = float(name[3:])
        lam = kappa ** (i / max(n - 1, 1) - 0.5) if n > 1 else np.ones(1)
    else:
        raise ValueError(name)
    return np.asarray(lam, dtype=np.float64)


def _rng(seed, *tag):
    return np.random.default_rng([1400 + int(seed)] + [int(t) for t in tag])


def mixing(n, cplx, seed, tag=0):
    """Fixed orthogonal / unitary mixing (generic numeric fill; VERIF_SEED)."""
    r = _rng(seed, n, int(cplx), tag)
    G = r.standard_normal((n, n))
    if cplx:
        G = G + 1j * r.standard_normal((n, n))
    Q, R = np.linalg.qr(G)
    d = np.diag(R)
    return Q * (d / np.abs(d))


def hpd(lam, U):
    A = (U * lam) @ U.conj().T
    return 0.5 * (A + A.conj().T)


def system(n, spec, cplx, seed):
    lam = spectrum(spec, n)
    U = mixing(n, cplx, seed)
    return hpd(lam, U), lam, U


def vector(name, n, cplx, U, seed, tag=1):
    """rhs / start-position alphabet."""
    dt = np.complex128 if cplx else np.float64
    v = np.zeros(n, dtype=dt)
    if name == "zero":
        return v
    if name.startswith("ie"):
        v[int(name[2:])] = 1j
        return v
    if name.startswith("e") and name[1:].isdigit():
        v[int(name[1:])] = 1.
        return v
    if name == "ones":
        v[:] = (1. + 0.5j if cplx else 1.) / np.sqrt(n)
        return v
    if name == "eig":
        w = U[:, n // 2]
        return np.asarray(w, dtype=dt)
    if name == "eig2":   # in the span of two eigenvectors with different eigenvalues (if any)
        w = U[:, 0] + 0.5 * U[:, n - 1]
        return np.asarray(w, dtype=dt)
    if name == "gen":
        r = _rng(seed, n, int(cplx), tag, 77)
        w = r.standard_normal(n)
        if cplx:
            w = w + 1j * r.standard_normal(n)
        return np.asarray(w / np.linalg.norm(w), dtype=dt)
    raise ValueError(name)


def precond(name, A, lam, U, cplx, seed):
    """dense positive definite preconditioner M (applied as s = M r) or None"""
    n = A.shape[0]
    if name == "none":
        return None
    if name == "exact":
        return hpd(1. / lam, U)
    if name == "diag":
        return np.diag(1. / np.diag(A).real).astype(A.dtype)
    if name == "hpd":
        V = mixing(n, cplx, seed, tag=5)
        mu = 2. ** (np.arange(n) / max(n - 1, 1) * 2 - 1) if n > 1 else np.ones(1)
        return hpd(mu, V)
    raise ValueError(name)


def energy(A, b, x):
    v = 0.5 * np.vdot(x, A @ x).real
    if b is not None:
        v -= np.vdot(b, x).real
    return float(v)


def grad(A, b, x):
    g = A @ x
    return g if b is None else g - b


def krylov_minimisers(A, M, b, x0, kmax):
    """x_k = argmin E over x0 + span{(MA)^j M g0, j<k}, k = 0..kmax, by Arnoldi with
    re-orthogonalisation + a dense projected solve.  Returns (list of x_k, dimension at
    which the Krylov space became invariant or None)."""
    n = A.shape[0]
    g0 = grad(A, b, x0)
    out = [x0.copy()]
    Q = np.zeros((n, 0), dtype=A.dtype)
    w = g0 if M is None else M @ g0
    w0 = np.linalg.norm(w)
    closed = None
    for k in range(1, kmax + 1):
        if closed is None:
            for _ in range(2):
                w = w - Q @ (Q.conj().T @ w)
            nw = np.linalg.norm(w)
            if w0 == 0 or nw <= 1e-9 * w0 or Q.shape[1] >= n:
                closed = Q.shape[1]
            else:
                q = w / nw
                Q = np.concatenate([Q, q[:, None]], axis=1)
                w = A @ q
                if M is not None:
                    w = M @ w
                w0 = max(w0, np.linalg.norm(w))
        if Q.shape[1] == 0:
            out.append(x0.copy())
            continue
        H = Q.conj().T @ A @ Q
        y = np.linalg.solve(H, -(Q.conj().T @ g0))
        out.append(x0 + Q @ y)
    return out, closed


# ------------------------------------------------------------ NIFTy-side harness leaves
_cls = {}


def domain(kind, n):
    import nifty.cl as ift
    if kind == "un":
        return ift.DomainTuple.make(ift.UnstructuredDomain(n))
    if kind == "rg":
        return ift.DomainTuple.make(ift.RGSpace(n, distances=0.5))
    if kind == "multi":
        n1 = n // 2
        return ift.MultiDomain.make({"a": ift.UnstructuredDomain(n1), "b": ift.RGSpace(n - n1, distances=0.5)})
    raise ValueError(kind)


def to_field(dom, v, cplx):
    from vf import dense
    return dense.unflatten(dom, np.asarray(v), force_real=not cplx)


def dense_operator(dom, A, cap, cplx, counter=None):
    """Harness-side LinearOperator with matrix A in the flattened basis; `cap` is the
    advertised capability; `counter` (dict mode->int) counts applications."""
    import nifty.cl as ift
    from vf import dense
    if "op" not in _cls:
        class DenseOp(ift.LinearOperator):
            def __init__(self, dom, A, cap, cplx, counter):
                self._domain = self._target = ift.makeDomain(dom)
                self._capability = cap
                self._A = A
                self._cplx = cplx
                self._counter = counter
                self._mats = {}

            def _mat(self, mode):
                if mode not in self._mats:
                    A = self._A
                    self._mats[mode] = {self.TIMES: lambda: A,
                                        self.ADJOINT_TIMES: lambda: A.conj().T,
                                        self.INVERSE_TIMES: lambda: np.linalg.inv(A),
                                        self.ADJOINT_INVERSE_TIMES: lambda: np.linalg.inv(A).conj().T}[mode]()
                return self._mats[mode]

            def apply(self, x, mode):
                self._check_input(x, mode)
                if self._counter is not None:
                    self._counter[mode] = self._counter.get(mode, 0) + 1
                v = dense.flatten(x)
                return dense.unflatten(self._domain, self._mat(mode) @ v, force_real=not self._cplx)
        _cls["op"] = DenseOp
    return _cls["op"](dom, A, cap, cplx, counter)


class Runaway(Exception):
    pass


def recorder(inner, counter, maxcalls):
    """Recording proxy around an iteration controller: logs position, gradient, value of
    every energy shown to the controller, the status returned, and the operator
    application count at that moment."""
    import nifty.cl as ift
    from vf import dense
    if "rec" not in _cls:
        class Rec(ift.IterationController):
            def __init__(self, inner, counter, maxcalls):
                super().__init__()
                self.inner, self.counter, self.maxcalls = inner, counter, maxcalls
                self.log = []
                self.runs = []

            def _do(self, f, energy):
                e = dict(x=dense.flatten(energy.position), g=dense.flatten(energy.gradient),
                         v=energy.value, napply=sum(self.counter.values()), obj=energy)
                self.log.append(e)
                if len(self.log) > self.maxcalls:
                    raise Runaway()
                e["status"] = f(energy)
                return e["status"]

            def start(self, energy):
                self.log = []
                self.runs.append(self.log)
                return self._do(self.inner.start, energy)

            def check(self, energy):
                return self._do(self.inner.check, energy)
        _cls["rec"] = Rec
    return _cls["rec"](inner, counter, maxcalls)
