"""Reference model for C13 (Gaussian sampling from covariance operators).

Pure numpy, no nifty import.  An operator is described by a JSON spec (nested
dicts, all numbers written out); this module gives

  mat(spec)          dense complex matrix of the operator (boring linear algebra)
  kinds(spec)        per-pixel sampling kind: 1 real, 2 complex, 0 none (no dtype)
  expect(spec, inv)  what the documentation lets the library do when asked for a
                     sample: ("sample" | "decline" | "refuse", reason)
                       sample  - valid covariance of a supported kind: a sample with
                                 the right covariance must come back
                       refuse  - not a covariance (negative / complex / singular
                                 inverse / no sampling dtype / difference of
                                 independent parts): the library must raise
                       decline - a covariance, but a documented limitation allows
                                 the library to raise (inverse of a general sum,
                                 sandwich with a non-invertible bun, missing block
                                 entry, complex-typed diagonal, ...)
  target(spec, inv)  the covariance the sample must have (C or C^-1)

Spec kinds
  scal   {"k","dom","f","dt"}             f: float or [re, im]
  diag   {"k","dom","d","dt","sp"}        d: list of float or list of [re, im]; sp: None or list of space indices
  sand   {"k","bun","cheese","dt"}        cheese None -> unit cheese with sampling dtype dt
  block  {"k","dom","ops"}                dom: dict key -> domain; ops: dict key -> spec (keys may be missing)
  sum    {"k","terms","neg"}              t0 +/- t1 +/- ...   (neg[0] is False)
  enab   {"k","lik","prior","sfz","approx"}
  inven  {"k","op"}                       InversionEnabler(op)
  T      {"k","t","op"}                   t: 1 adjoint, 2 inverse, 3 adjoint inverse
  scaled {"k","f","op"}                   f * op
  chain  {"k","ops"}                      ops[0] @ ops[1] @ ...
  dense  {"k","dom","tgt","m","mi","inv"} harness-side matrix operator (mi: imaginary part or None)
  mask   {"k","dom","flags"}              MaskOperator
Domains: list of ["rg"|"un", n] (DomainTuple, C order) or dict key -> such a list (MultiDomain, keys sorted).
"""
import numpy as np

KIND = {"f8": 1, "f4": 1, "pyfloat": 1, "c16": 2, "c8": 2, "pycomplex": 2, None: 0, "f8i": 1, "c16i": 2}
SINGLE = ("f4", "c8")


# ----------------------------------------------------------------- domains
def dshape(D):
    return tuple(int(s[1]) for s in D)


def dsize(D):
    if isinstance(D, dict):
        return sum(dsize(D[k]) for k in sorted(D))
    return int(np.prod(dshape(D), dtype=int))


def cnum(x):
    if isinstance(x, (list, tuple)):
        return complex(x[0], x[1])
    return complex(x)


def is_ctyped(x):
    return isinstance(x, (list, tuple))


def dom_of(s):
    k = s["k"]
    if k in ("scal", "diag", "block", "dense", "mask"):
        return s["dom"]
    if k == "sand":
        return dom_of(s["bun"])
    if k == "sum":
        return dom_of(s["terms"][0])
    if k == "enab":
        return dom_of(s["prior"])
    if k in ("inven", "scaled"):
        return dom_of(s["op"])
    if k == "T":
        return tgt_of(s["op"]) if s["t"] in (1, 2) else dom_of(s["op"])
    if k == "chain":
        return dom_of(s["ops"][-1])
    raise ValueError(k)


def tgt_of(s):
    k = s["k"]
    if k == "dense":
        return s["tgt"]
    if k == "mask":
        return [["un", int(sum(1 for f in s["flags"] if not f))]]
    if k == "T":
        return dom_of(s["op"]) if s["t"] in (1, 2) else tgt_of(s["op"])
    if k == "chain":
        return tgt_of(s["ops"][0])
    return dom_of(s)


# ----------------------------------------------------------------- dense matrices
def diag_values(s):
    """Full diagonal (complex vector, C order over the whole domain)."""
    D = s["dom"]
    d = np.array([cnum(x) for x in s["d"]])
    sp = s.get("sp")
    shp = dshape(D)
    if sp is None:
        return d.reshape(-1)
    sub = tuple(shp[i] for i in sp)
    d = d.reshape(sub)
    resh = [shp[i] if i in sp else 1 for i in range(len(shp))]
    return np.broadcast_to(d.reshape(resh), shp).reshape(-1)


def diag_ctyped(s):
    return any(is_ctyped(x) for x in s["d"])


def mat(s):
    k = s["k"]
    if k == "scal":
        return cnum(s["f"]) * np.eye(dsize(s["dom"]), dtype=complex)
    if k == "diag":
        return np.diag(diag_values(s)).astype(complex)
    if k == "dense":
        M = np.array(s["m"], dtype=float).astype(complex)
        if s.get("mi") is not None:
            M = M + 1j * np.array(s["mi"], dtype=float)
        return M
    if k == "mask":
        keep = [i for i, f in enumerate(s["flags"]) if not f]
        M = np.zeros((len(keep), len(s["flags"])), dtype=complex)
        for r, i in enumerate(keep):
            M[r, i] = 1.
        return M
    if k == "sand":
        B = mat(s["bun"])
        Ch = np.eye(B.shape[0], dtype=complex) if s["cheese"] is None else mat(s["cheese"])
        return B.conj().T @ Ch @ B
    if k == "block":
        n = dsize(s["dom"])
        M = np.zeros((n, n), dtype=complex)
        off = 0
        for key in sorted(s["dom"]):
            m = dsize(s["dom"][key])
            M[off:off + m, off:off + m] = mat(s["ops"][key]) if key in s["ops"] else np.eye(m)
            off += m
        return M
    if k == "sum":
        M = 0.
        for t, ng in zip(s["terms"], s["neg"]):
            M = M + (-1. if ng else 1.) * mat(t)
        return M
    if k == "enab":
        return mat(s["lik"]) + mat(s["prior"])
    if k == "inven":
        return mat(s["op"])
    if k == "T":
        M = mat(s["op"])
        if s["t"] & 1:
            M = M.conj().T
        if s["t"] & 2:
            M = np.linalg.inv(M)
        return M
    if k == "scaled":
        return cnum(s["f"]) * mat(s["op"])
    if k == "chain":
        M = mat(s["ops"][0])
        for o in s["ops"][1:]:
            M = M @ mat(o)
        return M
    raise ValueError(k)


def is_real(s):
    """No complex number anywhere in the construction (then a real-kind sample is real)."""
    k = s["k"]
    if k == "scal":
        return not is_ctyped(s["f"])
    if k == "diag":
        return not diag_ctyped(s)
    if k == "dense":
        return s.get("mi") is None
    if k == "mask":
        return True
    if k == "sand":
        return is_real(s["bun"]) and (s["cheese"] is None or is_real(s["cheese"]))
    if k == "block":
        return all(is_real(o) for o in s["ops"].values())
    if k == "sum":
        return all(is_real(t) for t in s["terms"])
    if k == "enab":
        return is_real(s["lik"]) and is_real(s["prior"])
    if k in ("inven", "T"):
        return is_real(s["op"])
    if k == "scaled":
        return not is_ctyped(s["f"]) and is_real(s["op"])
    if k == "chain":
        return all(is_real(o) for o in s["ops"])
    raise ValueError(k)


# ----------------------------------------------------------------- sampling kinds
def _dt_kinds(dt, D):
    if isinstance(D, dict):
        out = []
        for key in sorted(D):
            d = dt[key] if isinstance(dt, dict) else dt
            out.append(np.full(dsize(D[key]), KIND[d]))
        return np.concatenate(out)
    return np.full(dsize(D), KIND[dt])


def dtypes_used(s, acc=None):
    acc = set() if acc is None else acc
    if isinstance(s, dict):
        if s.get("k") in ("scal", "diag") or (s.get("k") == "sand" and s.get("cheese") is None):
            dt = s.get("dt")
            for d in (dt.values() if isinstance(dt, dict) else [dt]):
                acc.add(d)
        for v in s.values():
            dtypes_used(v, acc)
    elif isinstance(s, list):
        for v in s:
            dtypes_used(v, acc)
    return acc


def kinds(s):
    """Per-pixel sampling kind of the sample (1 real, 2 complex, 0 none, -1 mixed/undefined)."""
    k = s["k"]
    if k in ("scal", "diag"):
        return _dt_kinds(s.get("dt"), s["dom"])
    if k == "sand":
        n = dsize(dom_of(s["bun"]))
        ck = _dt_kinds(s.get("dt"), tgt_of(s["bun"])) if s["cheese"] is None else kinds(s["cheese"])
        u = set(ck.tolist())
        return np.full(n, u.pop() if len(u) == 1 else -1)
    if k == "block":
        out = []
        for key in sorted(s["dom"]):
            out.append(kinds(s["ops"][key]) if key in s["ops"] else np.zeros(dsize(s["dom"][key]), dtype=int))
        return np.concatenate(out)
    if k in ("sum", "enab", "chain"):
        ts = s["terms"] if k == "sum" else ([s["lik"], s["prior"]] if k == "enab" else s["ops"])
        ks = [kinds(t) for t in ts]
        out = ks[0].copy()
        for o in ks[1:]:
            # a product keeps a sampling dtype only if both factors agree (documented in _combine_prod);
            # a sum of parts with different kinds has no documented meaning (-1: no oracle)
            out = np.where(out == o, out, np.where((out == 0) | (o == 0) | (k == "chain"), 0, -1))
        return out
    if k in ("inven", "T", "scaled"):
        return kinds(s["op"])
    raise ValueError(k)


# ----------------------------------------------------------------- what may / must happen
SAMPLE, DECLINE, REFUSE = "sample", "decline", "refuse"
_RANK = {SAMPLE: 0, DECLINE: 1, REFUSE: 2}


def _worst(*es):
    return max(es, key=lambda e: _RANK[e[0]])


def _expect_diaglike(values, ctyped, dt, inv):
    dts = list(dt.values()) if isinstance(dt, dict) else [dt]
    if any(d is None for d in dts):
        return (REFUSE, "no-sampling-dtype")
    values = np.asarray(values)
    if np.any(values.imag != 0):
        return (REFUSE, "complex")
    if np.any(values.real < 0):
        return (REFUSE, "negative")
    if inv and np.any(values.real == 0):
        return (REFUSE, "singular-inverse")
    if ctyped:
        return (DECLINE, "complex-typed-real-values")
    return (SAMPLE, "")


def has_inverse(s):
    """Does the (bun) operator advertise the inverse modes?"""
    k = s["k"]
    if k in ("scal", "diag"):
        return True
    if k == "dense":
        return bool(s.get("inv"))
    if k == "mask":
        return False
    if k == "chain":
        return all(has_inverse(o) for o in s["ops"])
    if k in ("T", "scaled"):
        return has_inverse(s["op"])
    if k == "inven":
        return True
    if k == "sand":
        return has_inverse(s["bun"]) and (s["cheese"] is None or has_inverse(s["cheese"]))
    if k == "block":
        return all(has_inverse(o) for o in s["ops"].values())
    return False


def _flatten_sum(terms, neg):
    T, N = [], []
    for t, ng in zip(terms, neg):
        if t["k"] == "sum":
            t2, n2 = _flatten_sum(t["terms"], t["neg"])
            T += t2
            N += [(not x) if ng else x for x in n2]
        else:
            T.append(t)
            N.append(ng)
    return T, N


def _resolve_diaglike(t):
    """adjoint / inverse of a scaling or diagonal operator is again one (values transformed)."""
    if t["k"] == "T" and t["op"]["k"] in ("scal", "diag", "T"):
        o = _resolve_diaglike(t["op"])
        if o["k"] == "scal":
            f = cnum(o["f"])
            f = f.conjugate() if t["t"] & 1 else f
            f = 1. / f if t["t"] & 2 else f
            return dict(o, f=[f.real, f.imag] if is_ctyped(o["f"]) else f.real)
        if o["k"] == "diag":
            v = np.array([cnum(x) for x in o["d"]])
            v = v.conj() if t["t"] & 1 else v
            v = 1. / v if t["t"] & 2 else v
            return dict(o, d=[[x.real, x.imag] for x in v] if diag_ctyped(o) else [float(x.real) for x in v])
    return t


def sum_effective(s):
    """Documented simplification of a sum: scaling and diagonal operators with one
    common sampling dtype on one domain merge into a single diagonal operator
    (signs included); block-diagonal operators merge key-wise; everything else stays
    an independent term with its sign.  Returns (list of (spec, neg))."""
    terms, neg = _flatten_sum(s["terms"], s["neg"])
    terms = [_resolve_diaglike(t) for t in terms]
    dl = [(t, n) for t, n in zip(terms, neg) if t["k"] in ("scal", "diag")]
    bl = [(t, n) for t, n in zip(terms, neg) if t["k"] == "block"]
    rest = [(t, n) for t, n in zip(terms, neg) if t["k"] not in ("scal", "diag", "block")]
    out = []
    if dl:
        dts = [t.get("dt") for t, _ in dl]
        D = dl[0][0]["dom"]
        if all(d == dts[0] for d in dts) or all(t["k"] == "scal" for t, _ in dl):
            dt = dts[0] if all(d == dts[0] for d in dts) else None
            n = dsize(D)
            v = np.zeros(n, dtype=complex)
            ctyped = False
            for t, ng in dl:
                sgn = -1. if ng else 1.
                if t["k"] == "scal":
                    v = v + sgn * cnum(t["f"])
                    ctyped |= is_ctyped(t["f"])
                else:
                    v = v + sgn * diag_values(t)
                    ctyped |= diag_ctyped(t)
            out.append((dict(k="_merged", dom=D, v=v, ctyped=ctyped, dt=dt,
                             anydiag=any(t["k"] == "diag" for t, _ in dl)), False))
        else:
            out += dl
    if len(bl) > 1:
        D = bl[0][0]["dom"]
        ops = {}
        for key in sorted(D):
            if all(key in t["ops"] for t, _ in bl):
                ops[key] = dict(k="sum", terms=[t["ops"][key] for t, _ in bl], neg=[n for _, n in bl])
        out.append((dict(k="block", dom=D, ops=ops), False))
    else:
        out += bl
    out += rest
    return out


def expect(s, inv):
    k = s["k"]
    if k == "scal":
        return _expect_diaglike([cnum(s["f"])], is_ctyped(s["f"]), s.get("dt"), inv)
    if k == "diag":
        return _expect_diaglike(diag_values(s), diag_ctyped(s), s.get("dt"), inv)
    if k == "_merged":
        return _expect_diaglike(s["v"], s["ctyped"], s["dt"], inv)
    if k == "T":
        return expect(s["op"], (not inv) if (s["t"] & 2) else inv)
    if k == "inven":
        return expect(s["op"], inv)
    if k == "sand":
        ch = s["cheese"] if s["cheese"] is not None else dict(k="scal", dom=tgt_of(s["bun"]), f=1., dt=s.get("dt"))
        e = expect(ch, inv)
        if inv and not has_inverse(s["bun"]):
            e = _worst(e, (DECLINE, "sandwich-bun-not-invertible"))
        return e
    if k == "block":
        es = [(SAMPLE, "")]
        for key in sorted(s["dom"]):
            if key in s["ops"]:
                es.append(expect(s["ops"][key], inv))
            else:
                es.append((DECLINE, "block-missing-entry"))
        return _worst(*es)
    if k == "sum":
        eff = sum_effective(s)
        if len(eff) == 1 and not eff[0][1]:
            return expect(eff[0][0], inv)
        if inv:
            return (DECLINE, "inverse-of-sum")
        es = []
        for t, ng in eff:
            es.append(expect(t, False))
            if ng:
                es.append((REFUSE, "difference-of-independent-parts"))
        return _worst(*es)
    if k == "enab":
        sm = dict(k="sum", terms=[s["lik"], s["prior"]], neg=[False, False])
        e = expect(sm, inv)
        if e[0] == SAMPLE or not inv:
            return e
        # numerical inversion (only reached through a NotImplementedError of the direct draw)
        if not _raises_notimplemented(sm, True):
            return e
        if s.get("sfz"):
            return expect(sm, False)
        return _worst(expect(s["prior"], True), expect(s["lik"], False))
    if k == "scaled":
        f = cnum(s["f"])
        o = s["op"]
        if f == 1:
            return expect(o, inv)
        if o["k"] == "diag" and not is_ctyped(s["f"]):
            return _expect_diaglike(f * diag_values(o), diag_ctyped(o), o.get("dt"), inv)
        if o["k"] == "scal":
            return (DECLINE, "scaled-scaling-drops-sampling-dtype")
        return (DECLINE, "chain-has-no-draw_sample")
    if k == "chain":
        if all(o["k"] == "diag" for o in s["ops"]):
            v = np.ones(dsize(s["ops"][0]["dom"]), dtype=complex)
            for o in s["ops"]:
                v = v * diag_values(o)
            dts = [o.get("dt") for o in s["ops"]]
            dt = dts[0] if all(d == dts[0] for d in dts) else None
            return _expect_diaglike(v, any(diag_ctyped(o) for o in s["ops"]), dt, inv)
        return (DECLINE, "chain-has-no-draw_sample")
    raise ValueError(k)


def _raises_notimplemented(s, inv):
    """Whether the direct draw of this (sum) operator fails with the documented
    NotImplementedError (the only failure SamplingEnabler falls back on)."""
    eff = sum_effective(s)
    if len(eff) == 1 and not eff[0][1]:
        t = eff[0][0]
        if t["k"] == "block":
            # first failing entry decides
            for key in sorted(t["dom"]):
                if key not in t["ops"]:
                    return False
                o = t["ops"][key]
                e = expect(o, inv)
                if e[0] == SAMPLE:
                    continue
                return o["k"] == "sum" and _raises_notimplemented(o, inv)
            return False
        return False
    return bool(inv)


def uses_cg(s, inv):
    k = s["k"]
    if k == "enab":
        sm = dict(k="sum", terms=[s["lik"], s["prior"]], neg=[False, False])
        return (inv and expect(sm, True)[0] != SAMPLE) or uses_cg(s["lik"], False) or uses_cg(s["prior"], inv)
    if k == "T":
        return uses_cg(s["op"], (not inv) if (s["t"] & 2) else inv)
    if k == "inven":
        return True
    if k == "sand":
        return uses_cg(s["bun"], inv) or (s["cheese"] is not None and uses_cg(s["cheese"], inv))
    if k == "block":
        return any(uses_cg(o, inv) for o in s["ops"].values())
    if k == "sum":
        return any(uses_cg(o, inv) for o in s["terms"])
    if k == "chain":
        return any(uses_cg(o, inv) for o in s["ops"])
    if k == "scaled":
        return uses_cg(s["op"], inv)
    return False


def covariance_facts(s, inv, tol=1e-9, adjoint=False):
    """(C, hermitian, min eigenvalue, target or None)."""
    C = mat(s)
    if adjoint:
        C = C.conj().T
    herm = bool(np.abs(C - C.conj().T).max(initial=0.) <= tol * max(1., np.abs(C).max(initial=0.)))
    ev = np.linalg.eigvalsh((C + C.conj().T) / 2) if C.size else np.zeros(0)
    mn = float(ev.min(initial=np.inf))
    T = None
    if herm and mn >= -tol:
        if not inv:
            T = C
        elif mn > tol:
            T = np.linalg.inv(C)
    return C, herm, mn, T


def has_tag(s, tag):
    """Structural tags used in semantic finding keys."""
    if isinstance(s, list):
        return any(has_tag(v, tag) for v in s)
    if not isinstance(s, dict):
        return False
    if tag == "neg-term" and s.get("k") == "sum":
        if any(_flatten_sum(s["terms"], s["neg"])[1]):
            return True
    if tag == "missing-entry" and s.get("k") == "block":
        if any(key not in s["ops"] for key in s["dom"]):
            return True
    return any(has_tag(v, tag) for v in s.values() if isinstance(v, (dict, list)))


def nodes(s):
    if isinstance(s, list):
        return sum(nodes(v) for v in s)
    if not isinstance(s, dict):
        return 0
    return (1 if "k" in s else 0) + sum(nodes(v) for v in s.values() if isinstance(v, (dict, list)))
