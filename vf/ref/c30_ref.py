"""Reference model for C30: target quantiles from scipy.stats, tail-accurate.

Everything here is independent of NIFTy.  A probability is represented as
(tail, q) with q <= 0.5: p = q (tail "lo") or p = 1 - q (tail "hi"), so that upper
quantiles are computed through `isf(q)` without cancellation, and the standard-normal
input is xi = ndtri(q) resp. -ndtri(q).
"""
import numpy as np
from scipy import special, stats

EPS = np.finfo(np.float64).eps

Q_QUICK = [1e-6, 3e-6, 1e-5, 3e-5, 1e-4, 3e-4, 1e-3, 3e-3, 0.01, 0.02, 0.05, 0.1, 0.15, 0.2, 0.25, 0.3, 0.35,
           0.4, 0.45, 0.48]
Q_THOROUGH = [1e-9, 1e-8, 1e-7] + Q_QUICK + [0.03, 0.07, 0.125, 0.175, 0.225, 0.275, 0.325, 0.375, 0.425, 0.49]


def grid(tier):
    """-> (tails, qs, xi): sorted by increasing probability; contains p = 0.5; 41 points (quick) / 67 (thorough)."""
    q = sorted(Q_QUICK if tier == "quick" else Q_THOROUGH)
    tails = ["lo"] * len(q) + ["lo"] + ["hi"] * len(q)
    qs = np.array(q + [0.5] + q[::-1])
    xi = np.where(np.array(tails) == "lo", special.ndtri(qs), -special.ndtri(qs))
    xi[len(q)] = 0.0
    return tails, qs, xi


def dense_xi(tier):
    """Fine grid used only for the monotonicity clause (between and across table nodes)."""
    n = 193 if tier == "quick" else 1537
    return np.linspace(-4.8, 4.8, n)


# ----------------------------------------------------------------------------- target distributions
def lognormal_params(mean, std):
    """Moment matching written from the definition: if X = exp(N(mu, s^2)) then E X = exp(mu + s^2/2) and
    Var X / (E X)^2 = exp(s^2) - 1."""
    mean, std = np.asarray(mean, dtype=float), np.asarray(std, dtype=float)
    s2 = np.log((std / mean) ** 2 + 1.0)
    mu = np.log(mean) - 0.5 * s2
    return mu, np.sqrt(s2)


def make_dist(spec):
    """spec = [name, p1, p2, ...] -> (frozen scipy distribution, post) ; post in (None, "log")."""
    name, par = spec[0], [float(v) for v in spec[1:]]
    if name == "normal":
        return stats.norm(loc=par[0], scale=par[1]), None
    if name == "lognormal":            # given by the moments (mean, std) of the log-normal variable itself
        mu, s = lognormal_params(par[0], par[1])
        d = stats.lognorm(s=float(s), scale=float(np.exp(mu)))
        # the oracle validates itself against scipy's moments of that distribution
        assert abs(d.mean() - par[0]) <= 1e-9 * par[0] and abs(d.std() - par[1]) <= 1e-9 * par[1]
        return d, None
    if name == "lognormal-log":        # given by (log_mean, log_std)
        return stats.lognorm(s=par[1], scale=float(np.exp(par[0]))), None
    if name == "uniform":              # (lower end, upper end)
        return stats.uniform(loc=par[0], scale=par[1] - par[0]), None
    if name == "laplace":              # (loc, scale)
        return stats.laplace(loc=par[0], scale=par[1]), None
    if name == "invgamma":             # (a, scale, loc)
        return stats.invgamma(par[0], loc=par[2], scale=par[1]), None
    if name == "loginvgamma":          # log of an inverse-gamma variable (a, scale)
        return stats.invgamma(par[0], scale=par[1]), "log"
    if name == "gamma":                # (shape, scale)
        return stats.gamma(par[0], scale=par[1]), None
    if name == "beta":
        return stats.beta(par[0], par[1]), None
    raise ValueError(name)


def _post(v, post):
    return np.log(v) if post == "log" else v


def quantiles(dist, post, tails, qs, factor=1.0):
    """Target quantiles at p = q*factor (lo) / 1 - q*factor (hi)."""
    qs = np.asarray(qs, dtype=float) * factor
    lo = np.array([t == "lo" for t in tails])
    out = np.where(lo, dist.ppf(np.where(lo, qs, 0.5)), dist.isf(np.where(lo, 0.5, qs)))
    return _post(out, post)


def quantile_of_xi(dist, post, xi):
    xi = np.asarray(xi, dtype=float)
    neg = xi <= 0
    p = special.ndtr(-np.abs(xi))
    return _post(np.where(neg, dist.ppf(p), dist.isf(p)), post)


def slope_and_curvature(dist, post, xi, log, d):
    """Central-difference estimates of f' and max|f''| around xi, f = Q(xi) (log=False) or log Q(xi) (log=True).
    max|f''| is taken over the centres xi-d, xi, xi+d (covers every table cell touching xi for steps <= d)."""
    def f(x):
        v = quantile_of_xi(dist, post, x)
        return np.log(v) if log else v
    xi = np.asarray(xi, dtype=float)
    with np.errstate(all="ignore"):
        fm2, fm1, f0, fp1, fp2 = f(xi - 2 * d), f(xi - d), f(xi), f(xi + d), f(xi + 2 * d)
    slope = (fp1 - fm1) / (2 * d)
    c = np.stack([np.abs(fm2 - 2 * fm1 + f0), np.abs(fm1 - 2 * f0 + fp1), np.abs(f0 - 2 * fp1 + fp2)]) / d ** 2
    return slope, np.nanmax(c, axis=0)


def tolerance(dist, post, tails, qs, xi, *, cdf_based, table, step, loc_scale):
    """Absolute tolerance on transform(xi) per grid point; the sum of
      (a) round-off                1e3 eps (|Q| + loc_scale)
      (b) conditioning             |Q(q (1 +- delta)) - Q(q)|, delta = 1e3 eps for a tail probability that the
                                   implementation can form accurately, 1e3 eps / q where it goes through
                                   cdf(xi) = 1 - q (upper tail of cdf based implementations: known condition 1/q)
      (c) documented table accuracy (DESIGN 7.3) of a LINEAR interpolation with spacing `step`:
                                   2 * step^2/8 * max|f''| (+ floor |f''| >= 0.01), f = log Q ("log", relative to Q)
                                   or f = Q ("lin", absolute); factor 2 for the variation of f'' inside a cell.
    Returns (tol, parts dict)."""
    Q = quantiles(dist, post, tails, qs)
    hi = np.array([t == "hi" for t in tails])
    delta = 1e3 * EPS * np.where(hi & bool(cdf_based), 1.0 / np.asarray(qs), 1.0)
    delta = np.minimum(delta, 0.5)
    qp, qm = quantiles(dist, post, tails, qs * (1 + delta)), quantiles(dist, post, tails, qs * (1 - delta))
    cond = np.maximum(np.abs(qp - Q), np.abs(qm - Q))
    ro = 1e3 * EPS * (np.abs(Q) + loc_scale)
    tab = np.zeros_like(Q)
    if table is not None:
        d = max(float(step), 0.05)
        _, curv = slope_and_curvature(dist, post, xi, table == "log", d)
        tab = 2.0 * float(step) ** 2 / 8.0 * (curv + 0.01)
        if table == "log":
            tab = tab * np.abs(Q)
    return ro + cond + tab, dict(roundoff=ro, conditioning=cond, table=tab)
