"""Independent reference definitions for C35 (response operators).  No nifty, ducc or jax.

All references are explicit index-level / O(N^2) constructions written from the documentation:
hat-function interpolation weights, Liang-Barsky cell clipping for line integrals, explicit Fourier
sums, index maps for padding and masking, midpoint sampling of a multilinear interpolant.
"""
import itertools

import numpy as np


def hat(t):
    return np.maximum(0., 1. - np.abs(t))


def fill(n, seed, salt=0, lo=0., hi=1.):
    """Deterministic generic values in [lo, hi) selected by (seed, salt): irrational rotation, no sampling."""
    k = np.arange(1, n + 1)
    u = np.mod(k * 0.6180339887498949 + 0.137 * seed + 0.31 * salt + 0.2718, 1.)
    return lo + (hi - lo) * u


def signed_fill(n, seed, salt=0):
    k = np.arange(1, n + 1)
    sgn = np.where(np.mod(k * 0.7548776662466927 + 0.41 * seed + 0.17 * salt, 1.) < 0.45, -1., 1.)
    return fill(n, seed, salt, 0.5, 2.) * sgn


# ------------------------------------------------------------------ multilinear interpolation on a torus
def interp_matrix_periodic(shape, dist, pts):
    """W[p, flat pixel]: node i of axis a sits at i * dist[a]; periodic with period n * dist[a].
    pts has shape (ndim, npts)."""
    pts = np.asarray(pts, dtype=float)
    npts = pts.shape[1]
    W = np.ones((npts,) + tuple(shape))
    for a, (n, d) in enumerate(zip(shape, dist)):
        t = pts[a][:, None] / d - np.arange(n)[None, :]
        h = sum(hat(t + k * n) for k in range(-40, 41))
        W = W * h.reshape((npts,) + tuple(n if b == a else 1 for b in range(len(shape))))
    return W.reshape(npts, -1)


def monomials(ndim):
    """All multilinear monomials prod_{a in S} x_a as index subsets S."""
    out = []
    for r in range(ndim + 1):
        out += [tuple(c) for c in itertools.combinations(range(ndim), r)]
    return out


def monomial_on_nodes(shape, node_coords, S):
    """Values of prod_{a in S} x_a on the tensor grid with per-axis node coordinates."""
    g = np.meshgrid(*node_coords, indexing="ij")
    v = np.ones(tuple(shape))
    for a in S:
        v = v * g[a]
    return v


# ------------------------------------------------------------------ regridding (non-periodic linear interpolation)
def regrid_matrix_1d(n, m):
    """Target pixel j of m sits at coordinate j * (n d / m); source node i at i d; linear interpolation
    between the two neighbouring source nodes (never extrapolates because m <= n)."""
    W = np.zeros((m, n))
    for j in range(m):
        c = j * (float(n) / m)
        if n == 1:
            W[j, 0] = 1.
            continue
        i0 = min(n - 2, int(np.floor(c + 1e-12)))
        f = c - i0
        W[j, i0] += 1. - f
        W[j, i0 + 1] += f
    return W


def kron_all(mats):
    M = mats[0]
    for m in mats[1:]:
        M = np.kron(M, m)
    return M


def embed(M, pre, post):
    return np.kron(np.kron(np.eye(pre), M), np.eye(post))


# ------------------------------------------------------------------ zero padding
def pad_matrix_1d(n, N, central):
    """(N, n) 0/1 matrix.  central=False: entries keep their index.  central=True (axis in FFT order): index
    i <= n//2 (frequency +i) keeps its index, index n-k, k = 1..n//2 (frequency -k) moves to N-k; for even n the
    Nyquist entry n/2 therefore appears at +n/2 and at -n/2 (documented: 'not split up').  N == n: identity."""
    P = np.zeros((N, n))
    if N == n or not central:
        for i in range(n):
            P[i, i] = 1.
        return P
    for i in range(n // 2 + 1):
        P[i, i] = 1.
    for k in range(1, n // 2 + 1):
        P[N - k, n - k] = 1.
    return P


# ------------------------------------------------------------------ line integrals through a pixel grid
def segment_pieces(start, end, shape, dist):
    """[(flat cell index, t0, t1)] for the part of start->end (physical coordinates) inside each cell; cell i
    of axis a covers [(i - 1/2) d_a, (i + 1/2) d_a).  Liang-Barsky clipping per cell."""
    start, end = np.asarray(start, float), np.asarray(end, float)
    d = end - start
    out = []
    for flat, idx in enumerate(np.ndindex(*shape)):
        t0, t1 = 0., 1.
        ok = True
        for a in range(len(shape)):
            lo, hi = (idx[a] - 0.5) * dist[a], (idx[a] + 0.5) * dist[a]
            if d[a] == 0:
                if not (lo <= start[a] < hi):
                    ok = False
                    break
            else:
                ta, tb = (lo - start[a]) / d[a], (hi - start[a]) / d[a]
                t0, t1 = max(t0, min(ta, tb)), min(t1, max(ta, tb))
        if ok and t1 > t0:
            out.append((flat, t0, t1))
    return out


def los_row(start, end, shape, dist):
    row = np.zeros(int(np.prod(shape)))
    L = float(np.linalg.norm(np.asarray(end, float) - np.asarray(start, float)))
    for flat, t0, t1 in segment_pieces(start, end, shape, dist):
        row[flat] = (t1 - t0) * L
    return row


def along_boundary(a, b, dist, shape=None):
    """The segment runs inside a cell-boundary hyperplane: the integral of a piecewise constant field is
    ambiguous there (measure-zero set of lines)."""
    for x, y, d in zip(a, b, dist):
        t = x / d + 0.5
        if x == y and abs(t - round(t)) < 1e-9:
            return True
    return False


def _sf(x):
    from scipy.special import erfc
    return 0.5 * erfc(x / np.sqrt(2.))


def parallax_weight(r, lo, mid, hi, sig):
    """P(true end point farther than r) when 1/length ~ N(1/mid, sig), truncated: 1 below lo, 0 above hi."""
    r = np.asarray(r, float)
    w = np.ones_like(r)
    m = (r > lo) & (r <= hi)
    w[m] = _sf((-1. / r[m] + 1. / mid) / sig)
    w[r > hi] = 0.
    return w


def los_row_parallax(start, end, shape, dist, sigma, trunc):
    """(row_midpoint, row_exact, bound): expected integral for an uncertain end point along start->end.
    row_midpoint: survival weight at the mid-distance of each traversed cell times the length in the cell;
    row_exact: integral of the survival weight over the piece (Gauss-Legendre on sub-pieces split at lo);
    bound[cell] >= |row_midpoint - row_exact| (monotone weight: length * oscillation)."""
    start, end = np.asarray(start, float), np.asarray(end, float)
    L = float(np.linalg.norm(end - start))
    u = (end - start) / L
    lo, mid, hi = 1. / (1. / L + trunc * sigma), L, 1. / (1. / L - trunc * sigma)
    far = start + u * hi
    N = int(np.prod(shape))
    rm, rx, bd = np.zeros(N), np.zeros(N), np.zeros(N)
    xg, wg = np.polynomial.legendre.leggauss(24)
    for flat, t0, t1 in segment_pieces(start, far, shape, dist):
        r0, r1 = t0 * hi, t1 * hi
        rm[flat] = (r1 - r0) * parallax_weight(np.array([0.5 * (r0 + r1)]), lo, mid, hi, sigma)[0]
        cuts = [r0] + [c for c in (lo,) if r0 < c < r1] + [r1]
        tot = 0.
        for a, b in zip(cuts[:-1], cuts[1:]):
            rr = 0.5 * (a + b) + 0.5 * (b - a) * xg
            rr = np.clip(rr, a + 1e-15 * hi, b - 1e-15 * hi)
            tot += 0.5 * (b - a) * float(wg @ parallax_weight(rr, lo, mid, hi, sigma))
        rx[flat] = tot
        wa = parallax_weight(np.array([r0 * (1 - 1e-15)]), lo, mid, hi * (1 + 1e-12), sigma)[0] if r0 > 0 else 1.
        wb = parallax_weight(np.array([min(r1, hi)]), lo, mid, hi * (1 + 1e-12), sigma)[0]
        bd[flat] = (r1 - r0) * max(wa - wb, 0.) + (r1 - r0) * (1. - _sf(-trunc) if r0 < lo < r1 else 0.)
    return rm, rx, bd


# ------------------------------------------------------------------ explicit Fourier sums
def centred_modes(shape):
    return np.meshgrid(*[np.arange(n) - n // 2 for n in shape], indexing="ij")


def nufft_phase(shape, dist, pos):
    """E[j, k] = exp(+2 pi i sum_a (k_a - n_a//2) d_a pos[j, a]),  shape (npoints, prod(shape))."""
    pos = np.asarray(pos, float)
    ks = centred_modes(shape)
    ph = sum(np.multiply.outer(pos[:, a] * dist[a], ks[a]) for a in range(len(shape)))
    return np.exp(2j * np.pi * ph).reshape(pos.shape[0], -1)


def gridder_phase(shape, dist, uv):
    """E[j, (l, m)] = exp(+2 pi i (u_j x_l + v_j y_m)), x_l = (l - nx//2) dx  (w = 0, unit wavelength)."""
    return nufft_phase(shape, dist, uv)


# ------------------------------------------------------------------ sampling line of sight (nifty.re)
def sampling_los_row(start, end, shape, node_spacing, n):
    """Midpoint sampling of the multilinear interpolant: nodes of axis a at i * node_spacing[a], samples at
    start + (end - start) (k + 1/2) / n, each weighted |end - start| / n.  Returns None if a sample leaves
    the convex hull of the nodes (strictly: index outside [0, N_a - 1))."""
    start, end = np.asarray(start, float), np.asarray(end, float)
    L = float(np.linalg.norm(end - start))
    row = np.zeros(tuple(shape))
    for k in range(n):
        p = start + (end - start) * ((k + 0.5) / n)
        idx = p / np.asarray(node_spacing)
        if np.any(idx < 0) or np.any(idx >= np.asarray(shape) - 1):
            return None
        i0 = np.floor(idx).astype(int)
        f = idx - i0
        for corner in itertools.product((0, 1), repeat=len(shape)):
            w = 1.
            for a, c in enumerate(corner):
                w *= f[a] if c else 1. - f[a]
            if w != 0.:
                row[tuple(i0 + np.array(corner))] += w * L / n
    return row.reshape(-1)


def interpolant_line_integral(x, start, end, node_spacing):
    """Exact integral along start->end of the multilinear interpolant of the node values x: the segment is
    split at every cell-boundary crossing and each piece (a polynomial of degree <= ndim in the line
    parameter) is integrated with a 4-point Gauss-Legendre rule (exact to degree 7)."""
    start, end = np.asarray(start, float), np.asarray(end, float)
    x = np.asarray(x, float)
    L = float(np.linalg.norm(end - start))
    s_i, e_i = start / np.asarray(node_spacing), end / np.asarray(node_spacing)
    cuts = {0., 1.}
    for a in range(x.ndim):
        if e_i[a] != s_i[a]:
            for g in range(int(np.floor(min(s_i[a], e_i[a]))), int(np.ceil(max(s_i[a], e_i[a]))) + 1):
                t = (g - s_i[a]) / (e_i[a] - s_i[a])
                if 0. < t < 1.:
                    cuts.add(float(t))
    cuts = sorted(cuts)
    xg, wg = np.polynomial.legendre.leggauss(4)
    tot = 0.
    for t0, t1 in zip(cuts[:-1], cuts[1:]):
        tm = 0.5 * (t0 + t1)
        cell = np.floor(s_i + (e_i - s_i) * tm).astype(int)
        cell = np.minimum(np.maximum(cell, 0), np.array(x.shape) - 2)
        for xi, wi in zip(xg, wg):
            t = tm + 0.5 * (t1 - t0) * xi
            f = s_i + (e_i - s_i) * t - cell
            val = 0.
            for corner in itertools.product((0, 1), repeat=x.ndim):
                w = 1.
                for a, c in enumerate(corner):
                    w *= f[a] if c else 1. - f[a]
                val += w * x[tuple(cell + np.array(corner))]
            tot += 0.5 * (t1 - t0) * wi * val
    return tot * L
