"""Reference models for C34 (numpy / scipy only, no nifty, no jax).

* SPD matrix alphabet  (spectrum kind x eigenbasis kind), probe enumeration
* the spectral measure of (A, z): nodes = distinct eigenvalues, weights = squared
  overlaps.  Everything Lanczos / Gauss quadrature produces in exact arithmetic is
  a function of that measure:
    - Krylov dimension kr = number of nodes with non-zero weight
    - z^T f(A) z = |z|^2 sum_k w_k f(lam_k)
    - Jacobi matrix (the tridiagonal Lanczos must produce) = Householder
      tridiagonalisation of diag(nodes) started at sqrt(w)  (scipy.linalg.hessenberg,
      i.e. NOT a Lanczos recurrence)
    - Kaniel-Paige bound for the extreme Ritz values at order < kr
* linear Gaussian model  d = R xi + n:  dense posterior, Hamiltonian, closed-form
  ELBO pieces, log-evidence (data-space formula), sigma-point sample sets.
"""
import itertools

import numpy as np
import scipy.linalg as sla


def _r(x, nd=3):
    return float(np.round(x, nd))


# ======================================================================================
#                                   matrices and probes
# ======================================================================================
def _rot(rng, n):
    if n == 0:
        return np.zeros((0, 0))
    Q, Rr = np.linalg.qr(rng.normal(size=(n, n)))
    return Q * np.sign(np.diag(Rr))[None, :]


def spectra(n, seed):
    rng = np.random.default_rng([3400, int(seed), n, 1])
    out = [("lin", np.linspace(0.5, 2.0, n)), ("geo", np.geomspace(0.2, 5.0, n))]
    lin = np.linspace(0.5, 2.0, n)
    d = lin.copy()
    d[-1] = d[-2]
    out.append(("degtop", d))                       # two largest equal -> kr <= n-1
    if n >= 4:
        out.append(("pairs", np.repeat(np.linspace(0.6, 1.8, (n + 1) // 2), 2)[:n]))   # kr <= ceil(n/2)
    out.append(("const", np.full(n, 1.5)))          # A = 1.5 I  -> kr = 1 for every probe
    for _ in range(10000):                          # generic fill, gaps >= 0.1
        f = np.sort(np.round(rng.uniform(0.5, 2.5, n), 2))
        if n == 1 or np.min(np.diff(f)) >= 0.1:
            break
    out.append(("fill", f))
    return out


def hadamard(n):
    H = np.ones((1, 1))
    while H.shape[0] < n:
        H = np.block([[H, H], [H, -H]])
    return H / np.sqrt(n)


def bases(n, seed):
    rng = np.random.default_rng([3400, int(seed), n, 2])
    out = [("eye", np.eye(n))]
    G = _rot(rng, n)
    out.append(("rot", G))
    h = (n + 1) // 2
    B = np.zeros((n, n))
    B[:h, :h] = _rot(rng, h)
    B[h:, h:] = _rot(rng, n - h)
    out.append(("block", B))                        # two invariant coordinate blocks
    # first eigenvector = ones/sqrt(n): the all-ones Rademacher probe is an eigenvector
    v = np.ones(n) / np.sqrt(n)
    u = v - np.eye(n)[0]
    Hh = np.eye(n) - 2. * np.outer(u, u) / (u @ u) if u @ u > 1e-30 else np.eye(n)
    C = np.eye(n)
    C[1:, 1:] = _rot(rng, n - 1)
    out.append(("ones", Hh @ C))
    if n in (2, 4):
        out.append(("had", hadamard(n)))            # every eigenvector is a sign pattern
    return out


def matrices(n, seed, few=False):
    """[(name, A, lam, U)] distinct SPD matrices of dimension n, simplest first."""
    out, seen = [], set()
    for (sn, lam), (bn, U) in itertools.product(spectra(n, seed), bases(n, seed)):
        A = (U * lam[None, :]) @ U.T
        A = 0.5 * (A + A.T)
        key = np.round(A, 9).tobytes()
        if key in seen:
            continue
        seen.add(key)
        out.append((sn + "/" + bn, A, lam.copy(), U.copy()))
    if few:
        keep = ("lin/rot", "degtop/block", "fill/ones", "lin/eye")
        out = [m for m in out if m[0] in keep] or out[:3]
    return out


def probes(n):
    """[(label, z)]: every basis vector, every e_i +- e_j, every sign pattern."""
    out = []
    E = np.eye(n)
    for i in range(n):
        out.append(("e%d" % i, E[i].copy()))
    for i in range(n):
        for j in range(i + 1, n):
            out.append(("e%d+e%d" % (i, j), E[i] + E[j]))
            out.append(("e%d-e%d" % (i, j), E[i] - E[j]))
    for s in itertools.product((1., -1.), repeat=n):
        out.append(("s" + "".join("+" if x > 0 else "-" for x in s), np.array(s)))
    return out


def sign_patterns(n):
    return np.array(list(itertools.product((1., -1.), repeat=n)))


# ======================================================================================
#                                   spectral measure
# ======================================================================================
W_ZERO = 1e-26      # weights below are round-off of an exact zero (squares of 1e-16-ish overlaps)
W_AMBIG = 1e-7      # weights in between are ill-conditioned for the Krylov dimension: probe is skipped


class Measure:
    def __init__(self, A, z, proj=None):
        """Spectral measure of A seen from z (optionally z <- z - Q Q^T z first)."""
        A = np.asarray(A, dtype=np.float64)
        z = np.asarray(z, dtype=np.float64)
        if proj is not None and proj.size:
            z = z - proj @ (proj.T @ z)
        self.z = z
        self.norm2 = float(z @ z)
        lam, U = np.linalg.eigh(A)
        self.lam_all = lam
        if self.norm2 < 1e-20:
            self.nodes, self.w, self.ambiguous = np.zeros(0), np.zeros(0), False
            self.kr = 0
            return
        c = (U.T @ z) ** 2 / self.norm2
        nodes, w = [], []
        for l, ci in zip(lam, c):
            if nodes and abs(l - nodes[-1]) <= 1e-9 * max(1., abs(l)):
                w[-1] += ci
            else:
                nodes.append(l)
                w.append(ci)
        nodes, w = np.array(nodes), np.array(w)
        self.ambiguous = bool(np.any((w >= W_ZERO) & (w < W_AMBIG)))
        keep = w >= W_ZERO
        self.nodes, self.w = nodes[keep], w[keep] / w[keep].sum()
        self.kr = int(self.nodes.size)

    def quad(self, f):
        """z^T f(A) z."""
        if self.kr == 0:
            return 0.
        return self.norm2 * float(np.sum(self.w * f(self.nodes)))

    def jacobi(self):
        """(alpha[kr], beta[kr-1]) of the Jacobi matrix, beta > 0."""
        k = self.kr
        if k == 0:
            return np.zeros(0), np.zeros(0)
        q = np.sqrt(self.w)
        u = q - np.eye(k)[0]
        W = np.eye(k) - 2. * np.outer(u, u) / (u @ u) if u @ u > 1e-30 else np.eye(k)
        B = W @ np.diag(self.nodes) @ W
        B = 0.5 * (B + B.T)
        H = sla.hessenberg(B) if k > 2 else B
        return np.diag(H).copy(), np.abs(np.diag(H, -1)).copy()

    def gauss(self, m, f):
        """|z|^2 * m-point Gauss rule of the measure (m <= kr), by eigen-decomposition of the leading Jacobi block."""
        a, b = self.jacobi()
        m = min(m, self.kr)
        T = np.diag(a[:m]) + np.diag(b[:m - 1], 1) + np.diag(b[:m - 1], -1)
        th, S = np.linalg.eigh(T)
        return self.norm2 * float(np.sum(S[0] ** 2 * f(th))), th

    def kaniel_paige_gap(self, m, which):
        """Upper bound on |extreme node - extreme Ritz value| after m < kr steps (Golub/Van Loan 10.1.2)."""
        nodes, w = (self.nodes, self.w) if which == "max" else (-self.nodes[::-1], self.w[::-1])
        l1, l2, ln = nodes[-1], nodes[-2], nodes[0]
        cos2 = w[-1]
        tan2 = (1. - cos2) / cos2
        if m == 1:
            cheb = 1.
        else:
            rho = (l1 - l2) / (l2 - ln)
            x = 1. + 2. * rho
            cheb = np.cosh((m - 1) * np.arccosh(x))
        return (l1 - ln) * tan2 / cheb ** 2


# ======================================================================================
#                                   linear Gaussian models
# ======================================================================================
SHAPES_QUICK = [(1, 1), (2, 2), (3, 2), (2, 3)]
SHAPES_THOROUGH = [(1, 1), (2, 1), (1, 2), (2, 2), (3, 2), (2, 3), (3, 3), (4, 3), (3, 4), (4, 4)]


def model_specs(tier, seed):
    """Linear Gaussian models d = R xi + n, xi ~ N(0,1), n ~ N(0, diag(nvar)); all numbers written out."""
    shapes = SHAPES_QUICK if tier == "quick" else SHAPES_THOROUGH
    noises = [1.0, 0.1] if tier == "quick" else [1.0, 0.1, 10.0]
    specs = []
    for (ns, nd) in shapes:
        rng = np.random.default_rng([3401, int(seed), ns, nd])
        for _ in range(10000):
            R = np.round(rng.uniform(-1.5, 1.5, (nd, ns)), 2)
            sv = np.linalg.svd(R, compute_uv=False)
            gaps = np.diff(np.sort(sv ** 2))
            if sv.min() >= 0.4 and (sv.size == 1 or gaps.min() >= 0.15 * (sv ** 2).max() / sv.size):
                break
        kinds = [("full", R)]
        if min(ns, nd) >= 2:
            Rd = R.copy()                       # rank min-1: last row / column := combination of the others
            if nd >= ns:
                Rd[:, -1] = np.round(Rd[:, 0] * 0.5, 3) if ns == 2 else Rd[:, 0] - 0.5 * Rd[:, 1]
            else:
                Rd[-1, :] = np.round(Rd[0, :] * 0.5, 3) if nd == 2 else Rd[0, :] - 0.5 * Rd[1, :]
            kinds.append(("rankdef", Rd))
        if nd >= 2:
            Rz = R.copy()
            Rz[-1, :] = 0.                      # a data point without any response
            kinds.append(("zerorow", Rz))
        dgen = np.round(rng.uniform(-2., 2., nd), 2)
        for (rk, Rm), nv in itertools.product(kinds, noises):
            if tier == "quick" and nv != 1.0 and not (rk == "full" and (ns, nd) in ((2, 2), (3, 2))):
                continue
            nvar = nv * (np.linspace(1., 2., nd) if (rk == "full" and nd > 1) else np.ones(nd))
            datas = [("gen", dgen)]
            if tier != "quick" and nv == 1.0 and rk == "full":
                datas.append(("e0", np.eye(nd)[0]))
            for dk, d in datas:
                specs.append(dict(ns=ns, nd=nd, rkind=rk, noise=nv, dkind=dk,
                                  R=[[_r(x) for x in row] for row in Rm],
                                  nvar=[_r(x, 4) for x in nvar], d=[_r(x) for x in d]))
    specs.sort(key=lambda s: (s["ns"] + s["nd"], s["ns"], s["rkind"] != "full", s["noise"] != 1.0, s["rkind"],
                              s["noise"], s["dkind"]))
    # square models with n_rel >= 4 and prescribed, well separated singular values: only used for the resume x batch
    # schedule product (split points strictly inside a batch that is not the last one need n_rel >= 4)
    for n in ((4,) if tier == "quick" else (5, 6)):
        rng = np.random.default_rng([3402, int(seed), n])
        sv = np.linspace(0.8, 2.0, n)
        Rm = np.round(_rot(rng, n) @ np.diag(sv) @ _rot(rng, n).T, 3)
        specs.append(dict(ns=n, nd=n, rkind="full", noise=1.0, dkind="gen", sched=True,
                          R=[[_r(x) for x in row] for row in Rm], nvar=[1.0] * n,
                          d=[_r(x) for x in np.round(rng.uniform(-2., 2., n), 2)]))
    return specs


class LinGauss:
    def __init__(self, spec):
        self.R = np.array(spec["R"], dtype=np.float64).reshape(spec["nd"], spec["ns"])
        self.nvar = np.array(spec["nvar"], dtype=np.float64)
        self.d = np.array(spec["d"], dtype=np.float64)
        self.ns, self.nd = spec["ns"], spec["nd"]
        R, Ninv = self.R, np.diag(1. / self.nvar)
        self.M = np.eye(self.ns) + R.T @ Ninv @ R                # signal-space metric
        self.Md = np.diag(self.nvar ** -0.5) @ R @ R.T @ np.diag(self.nvar ** -0.5)   # data-space operator (LSM^T LSM)
        self.D = np.linalg.inv(self.M)
        self.m = self.D @ R.T @ (self.d / self.nvar)
        self.nrel = min(self.ns, self.nd)
        self.ev_sig = np.sort(np.linalg.eigvalsh(self.M))[::-1]          # descending
        self.ev_dat = np.sort(np.linalg.eigvalsh(self.Md))[::-1]
        self.logdet = float(np.linalg.slogdet(self.M)[1])
        # log evidence + 1/2 log|2 pi N|  (data-space formula; independent of everything above)
        C = np.diag(self.nvar) + R @ R.T
        self.logev = float(-0.5 * self.d @ np.linalg.solve(C, self.d)
                           - 0.5 * np.linalg.slogdet(np.eye(self.nd) + Ninv @ R @ R.T)[1])

    def lh(self, s):
        r = self.d - self.R @ s
        return 0.5 * float(np.sum(r * r / self.nvar))

    def ham(self, s):
        return self.lh(s) + 0.5 * float(s @ s)

    def premise_ok(self, min_lh_eval=1e-3):
        """No relevant eigenvalue inside (1, 1+10*min_lh_eval) other than exact ones (early-stop window),
        and the non-unit part of the spectrum is simple (ARPACK with one start vector)."""
        ex = self.ev_sig[:self.nrel] - 1.
        nz = ex[ex > 1e-9]
        if np.any(nz < 10 * min_lh_eval):
            return False
        if nz.size > 1 and np.min(np.abs(np.diff(nz))) < 1e-3 * nz.max():
            return False
        return True

    def sigma_samples(self, kind):
        """(pos, residuals[2 ns, ns], shift) : antithetic sigma points whose second moment is EXACTLY D,
        i.e. an exact finite representation of Q = N(pos, D)."""
        L = np.linalg.cholesky(self.D)
        res = np.sqrt(self.ns) * np.concatenate([L.T, -L.T])
        shift = np.zeros(self.ns)
        if kind == "shift":
            shift = np.array([0.3, -0.2, 0.25, -0.15, 0.1][:self.ns])
        return self.m + shift, res, shift
