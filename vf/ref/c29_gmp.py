"""Closed-form reference model for C29 (Gauss-Markov processes), numpy only.

Continuous-time linear SDE  dz = F z dt + G dW  with parameters that are constant
inside every grid interval [t_i, t_i+dt_i) (the documented meaning of per-step
parameters).  Per interval the exact transition is
        z(t+dt) = Phi z(t) + n,   n ~ N(0, Q),
        Phi = exp(F dt),  Q = int_0^dt exp(F u) G G^T exp(F u)^T du       (closed forms below)
and the covariance of the process at the grid points is assembled from (Phi_i, Q_i)
and the covariance P0 of the initial state:
        P_{i+1} = Phi_i P_i Phi_i^T + Q_i,   Cov(z_j, z_i) = Phi_{j-1} ... Phi_i P_i  (j >= i).

Processes (state dimension d):
  WP   d=1  dx = s dW                                  Phi = 1,               Q = s^2 dt
  IWP  d=2  dx = y dt + s*sqrt(w) dW1, dy = s dW2      Phi = [[1,dt],[0,1]],  Q = s^2 [[dt^3/3 + w dt, dt^2/2],[dt^2/2, dt]]
  OUP  d=1  dx = -g x dt + a dW                        Phi = exp(-g dt),      Q = a^2 (1 - exp(-2 g dt)) / (2 g)
`w` (variance of the extra Wiener term relative to s^2) and `a` (amplitude of the white
noise) are what the *convention* maps the user parameters (asperity, sigma) to; the
driver decides which convention is the documented one.

For constant parameters the grid covariance has a direct kernel form (t, s = grid times,
m = min(t,s)), used as a second, recursion-free oracle:
  WP   s^2 m
  IWP  Cov(y,y) = s^2 m;  Cov(x_t, y_u) = s^2 (u^2/2 + u (t-u)) for u<=t, s^2 t^2/2 for t<u;
       Cov(x_t, x_u) = s^2 (m^3/3 + m^2 |t-u| / 2 + w m)
  OUP  fixed start: a^2/(2g) (exp(-g|t-u|) - exp(-g(t+u)));  stationary start: a^2/(2g) exp(-g|t-u|)
"""
import numpy as np


def as_steps(v, n):
    v = np.asarray(v, dtype=float)
    return np.full(n, float(v)) if v.ndim == 0 else v.astype(float).copy()


def transitions(proc, dt, s, g=None, w=None):
    """Lists (Phi_i, Q_i).  dt, s, g, w: arrays of length N (per-interval constants).
    For OUP `s` is the white-noise amplitude a of the SDE."""
    N = len(dt)
    Phis, Qs = [], []
    for i in range(N):
        h = dt[i]
        if proc == "WP":
            Phi = np.array([[1.]])
            Q = np.array([[s[i] ** 2 * h]])
        elif proc == "IWP":
            Phi = np.array([[1., h], [0., 1.]])
            Q = s[i] ** 2 * np.array([[h ** 3 / 3. + w[i] * h, h ** 2 / 2.], [h ** 2 / 2., h]])
        elif proc == "OUP":
            Phi = np.array([[np.exp(-g[i] * h)]])
            Q = np.array([[s[i] ** 2 * (-np.expm1(-2. * g[i] * h)) / (2. * g[i])]])
        else:
            raise ValueError(proc)
        Phis.append(Phi)
        Qs.append(Q)
    return Phis, Qs


def grid_mean(Phis, m0):
    m0 = np.atleast_1d(np.asarray(m0, dtype=float))
    out = [m0]
    for Phi in Phis:
        out.append(Phi @ out[-1])
    return np.array(out)            # (N+1, d)


def grid_cov(Phis, Qs, P0):
    """Full covariance, index (i*d + a, j*d + b)."""
    N = len(Phis)
    d = Phis[0].shape[0] if N else np.atleast_2d(P0).shape[0]
    P = [np.atleast_2d(np.asarray(P0, dtype=float))]
    for i in range(N):
        P.append(Phis[i] @ P[-1] @ Phis[i].T + Qs[i])
    C = np.zeros(((N + 1) * d, (N + 1) * d))
    for i in range(N + 1):
        T = np.eye(d)
        for j in range(i, N + 1):
            if j > i:
                T = Phis[j - 1] @ T
            blk = T @ P[i]                       # Cov(z_j, z_i)
            C[j * d:(j + 1) * d, i * d:(i + 1) * d] = blk
            C[i * d:(i + 1) * d, j * d:(j + 1) * d] = blk.T
    return C


def kernel_cov(proc, dt, s, g=None, w=0., stationary=False):
    """Direct kernel form for CONSTANT scalar parameters and a deterministic (or, OUP,
    stationary) start."""
    t = np.concatenate([[0.], np.cumsum(dt)])
    n = len(t)
    if proc == "WP":
        return s ** 2 * np.minimum.outer(t, t)
    if proc == "OUP":
        v = s ** 2 / (2. * g)
        D = np.abs(np.subtract.outer(t, t))
        K = v * np.exp(-g * D)
        if not stationary:
            K = K - v * np.exp(-g * np.add.outer(t, t))
        return K
    if proc == "IWP":
        C = np.zeros((2 * n, 2 * n))
        for i in range(n):
            for j in range(n):
                a, b = t[i], t[j]
                m = min(a, b)
                C[2 * i, 2 * j] = s ** 2 * (m ** 3 / 3. + m ** 2 * abs(a - b) / 2. + w * m)
                C[2 * i + 1, 2 * j + 1] = s ** 2 * m
                # Cov(x_a, y_b)
                xy = s ** 2 * (b ** 2 / 2. + b * (a - b)) if b <= a else s ** 2 * a ** 2 / 2.
                C[2 * i, 2 * j + 1] = xy
                C[2 * j + 1, 2 * i] = xy
        return C
    raise ValueError(proc)


def lognormal_value(mean, std, xi):
    """Value of a moment-matched log-normal prior at standard-normal latent xi."""
    ls2 = np.log1p((std / mean) ** 2)
    return float(np.exp(np.log(mean) - 0.5 * ls2 + np.sqrt(ls2) * xi))


def recursion_matrix(drifts, diffamps):
    """Exact matrix of res_{i+1} = D_i res_i + A_i xi_i w.r.t. (x0, xi_0..xi_{N-1}).
    Returns (Jx0 ((N+1)d x d), Jxi ((N+1)d x N k))."""
    N = len(drifts)
    d = drifts[0].shape[0]
    k = diffamps[0].shape[1]
    Jx0 = np.zeros(((N + 1) * d, d))
    Jxi = np.zeros(((N + 1) * d, N * k))
    Jx0[:d] = np.eye(d)
    for i in range(N):
        Jx0[(i + 1) * d:(i + 2) * d] = drifts[i] @ Jx0[i * d:(i + 1) * d]
        Jxi[(i + 1) * d:(i + 2) * d] = drifts[i] @ Jxi[i * d:(i + 1) * d]
        Jxi[(i + 1) * d:(i + 2) * d, i * k:(i + 1) * k] += diffamps[i]
    return Jx0, Jxi


def psd_factor(Q):
    """Some A with A A^T = Q (eigen-decomposition; independent of the library's choice)."""
    w, V = np.linalg.eigh(Q)
    w = np.clip(w, 0., None)
    return V * np.sqrt(w)
