"""Reference quantities for C28 (correlated-field models), numpy only.

* documented prior transforms of the hyper parameters (moment-matched log-normal, normal);
* the documented fluctuation formulas of product spectra
      q_i = (f_i / z)^2,   z = zero-mode amplitude, f_i = `fluctuations` of space i
      total^2     = z^2 (prod_i (1 + q_i) - 1)
      slice_i^2   = z^2 q_i prod_{j != i} (1 + q_j)
      average_i^2 = f_i^2
  (single space: all three equal f^2);
* exact EXPECTED realised fluctuations of a field  s = b + A xi,  xi ~ N(0, 1), on a product grid,
  from the matrix A alone (definitions of CorrelatedFieldMaker.*_fluctuation_realized):
      total^2     = E mean_x (s - mean_x s)^2                      = ||(1 - M_all) A||_F^2 / N
      slice_i^2   = E mean_x (s - mean_{x_i} s)^2                  = ||(1 - M_i) A||_F^2 / N
      average_i^2 = E mean_{x_i} (r - mean_{x_i} r)^2, r = mean_{x_others} s
  (M = averaging over the named axes).  A constant b drops out.
"""
import numpy as np


def lognormal_value(mean, std, xi):
    ls2 = np.log1p((std / mean) ** 2)
    return float(np.exp(np.log(mean) - 0.5 * ls2 + np.sqrt(ls2) * xi))


def normal_value(mean, std, xi):
    return float(mean + std * xi)


def documented_fluctuations(z, f):
    """z: zero-mode amplitude, f: list of per-space fluctuation amplitudes."""
    f = [float(x) for x in f]
    if len(f) == 1:
        return dict(total=f[0], slice=[f[0]], average=[f[0]])
    q = [(x / z) ** 2 for x in f]
    tot = z * np.sqrt(np.prod([1. + x for x in q]) - 1.)
    sl = [z * np.sqrt(q[i] * np.prod([1. + q[j] for j in range(len(q)) if j != i])) for i in range(len(q))]
    return dict(total=float(tot), slice=[float(x) for x in sl], average=f)


def realised_fluctuations(A, shapes):
    """A: (N_pix, n_xi) matrix of the field w.r.t. the excitations; shapes: list of per-space
    pixel shapes (the field lives on their product, C order)."""
    full = tuple(int(n) for s in shapes for n in s)
    n_xi = A.shape[1]
    T = np.asarray(A, dtype=float).reshape(full + (n_xi,))
    N = int(np.prod(full))
    axes, off = [], 0
    for s in shapes:
        axes.append(tuple(range(off, off + len(s))))
        off += len(s)
    allax = tuple(range(off))
    S = T - T.mean(axis=allax, keepdims=True)
    out = dict(total=float(np.sqrt((S ** 2).sum() / N)), slice=[], average=[])
    for i, ax in enumerate(axes):
        S = T - T.mean(axis=ax, keepdims=True)
        out["slice"].append(float(np.sqrt((S ** 2).sum() / N)))
        others = tuple(a for a in allax if a not in ax)
        r = T.mean(axis=others, keepdims=True) if others else T
        S = r - r.mean(axis=ax, keepdims=True)
        Ni = int(np.prod([full[a] for a in ax]))
        out["average"].append(float(np.sqrt((S ** 2).sum() / Ni)))
    return out
