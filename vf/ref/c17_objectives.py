"""Reference side of C17: smooth non-convex objectives on a pytree position
{"a": shape (1,), "b": shape (d-1,)} -- each written twice:

  * `jax_fun(name, d, seed)`  the function handed to the library (takes a nifty.re Vector / dict),
  * `Ref(name, d, seed)`      value, gradient and Hessian written out by hand in numpy on the
                              flattened position (order: a, then b).  This is the oracle.

plus the reference of ONE negative-curvature Newton-CG iteration (documented halving schedule).
`seed` only changes generic numbers (tilt / phases / generic grid coordinates).
"""
import itertools

import numpy as np

NAMES = ["saddle", "doublewell", "sumcos", "rosen"]


def params(name, d, seed):
    s = float(seed)
    if name == "saddle":
        # x0^2 - x1^2 + 1/4 sum x_i^4 (+ x_i^2 for i >= 2) + tilt*x0
        return dict(tilt=0.05 + 0.01*s)
    if name == "doublewell":
        # sum (x^4/4 - 3/8 x^2) + tilt*x0 : f''(+-1/2) = 0 EXACTLY in floating point
        return dict(tilt=0.1 + 0.01*s)
    if name == "sumcos":
        return dict(a=1. + 0.5*np.arange(d), p=0.3*np.arange(d) + 0.02*s, c=0.3)
    if name == "rosen":
        return dict(k=10.)
    raise ValueError(name)


def grid_axis(name, seed):
    """5 coordinates per axis (6 for doublewell).  doublewell keeps +-0.5 exactly (zero-curvature points)."""
    j = 0.0071*(seed + 1)
    if name == "saddle":
        return [-1.25 + j, -0.5 - j, 0.125 + j, 0.5 + 2*j, 1.5 - j]
    if name == "doublewell":
        # 0.5 + 2^-12: curvature 7e-4 in that coordinate -> the Newton step overshoots by more than 2^6, which
        # forces the halving line search through its reset (6th point of this axis)
        return [-1.25 + j, -0.5, 0.125 + j, 0.5, 1.0 + j, 0.5 + 2.**-12]
    if name == "sumcos":
        return [-2.5 + j, -1.2 - j, 0.1 + j, 1.3 + j, 2.7 - j]
    if name == "rosen":
        return [-1.2 + j, -0.5 - j, 0.1 + j, 0.6 + j, 1.4 - j]
    raise ValueError(name)


def start_grid(name, d, seed, npts=5):
    ax = grid_axis(name, seed)
    if npts == 3:
        ax = [ax[0], ax[2], ax[3]]
    elif d >= 3:
        ax = ax[:5]
    return [list(p) for p in itertools.product(ax, repeat=d)]


class Ref:
    def __init__(self, name, d, seed):
        self.name, self.d = name, d
        self.p = params(name, d, seed)

    def f(self, x):
        x = np.asarray(x, float)
        p = self.p
        if self.name == "saddle":
            return float(x[0]**2 - x[1]**2 + 0.25*np.sum(x**4) + np.sum(x[2:]**2) + p["tilt"]*x[0])
        if self.name == "doublewell":
            return float(np.sum(0.25*x**4 - 0.375*x**2) + p["tilt"]*x[0])
        if self.name == "sumcos":
            return float(np.sum(p["a"]*np.cos(x + p["p"])) + p["c"]*np.cos(x[0] - x[1]))
        if self.name == "rosen":
            return float(np.sum((1. - x[:-1])**2 + p["k"]*(x[1:] - x[:-1]**2)**2))

    def g(self, x):
        x = np.asarray(x, float)
        p = self.p
        if self.name == "saddle":
            r = x**3
            r[0] += 2*x[0] + p["tilt"]
            r[1] -= 2*x[1]
            r[2:] += 2*x[2:]
            return r
        if self.name == "doublewell":
            r = x**3 - 0.75*x
            r[0] += p["tilt"]
            return r
        if self.name == "sumcos":
            r = -p["a"]*np.sin(x + p["p"])
            s = p["c"]*np.sin(x[0] - x[1])
            r[0] -= s
            r[1] += s
            return r
        if self.name == "rosen":
            k = p["k"]
            r = np.zeros(self.d)
            r[:-1] += -2.*(1. - x[:-1]) - 4*k*x[:-1]*(x[1:] - x[:-1]**2)
            r[1:] += 2*k*(x[1:] - x[:-1]**2)
            return r

    def h(self, x):
        x = np.asarray(x, float)
        p = self.p
        d = self.d
        if self.name == "saddle":
            H = np.diag(3*x**2)
            H[0, 0] += 2
            H[1, 1] -= 2
            for i in range(2, d):
                H[i, i] += 2
            return H
        if self.name == "doublewell":
            return np.diag(3*x**2 - 0.75)
        if self.name == "sumcos":
            H = np.diag(-p["a"]*np.cos(x + p["p"]))
            c = p["c"]*np.cos(x[0] - x[1])
            H[0, 0] -= c
            H[1, 1] -= c
            H[0, 1] += c
            H[1, 0] += c
            return H
        if self.name == "rosen":
            k = p["k"]
            H = np.zeros((d, d))
            for i in range(d - 1):
                H[i, i] += 2. - 4*k*(x[i+1] - x[i]**2) + 8*k*x[i]**2
                H[i, i+1] += -4*k*x[i]
                H[i+1, i] += -4*k*x[i]
                H[i+1, i+1] += 2*k
            return H

    # -- reference of one Newton-CG iteration under negative curvature along g
    def negcurv_trials(self, x):
        """gamma = g.g, c = g.H.g < 0: the documented fallback step is t = gamma/|c| along -g, tried
        with factors 1, 1/2, .., 1/32.  Returns (t, [(factor, f(x - factor*t*g))...])."""
        x = np.asarray(x, float)
        g = self.g(x)
        c = float(g @ self.h(x) @ g)
        gam = float(g @ g)
        t = gam/abs(c)
        return t, [(2.**-k, self.f(x - 2.**-k*t*g)) for k in range(6)]


def jax_fun(name, d, seed):
    """The same objectives in jax.numpy on the pytree position (transliteration of Ref.f)."""
    import jax.numpy as jnp
    p = params(name, d, seed)

    def flat(v):
        t = v.tree if hasattr(v, "tree") else v
        return jnp.concatenate([t["a"], t["b"]])

    if name == "saddle":
        def f(v):
            x = flat(v)
            return x[0]**2 - x[1]**2 + 0.25*jnp.sum(x**4) + jnp.sum(x[2:]**2) + p["tilt"]*x[0]
    elif name == "doublewell":
        def f(v):
            x = flat(v)
            return jnp.sum(0.25*x**4 - 0.375*x**2) + p["tilt"]*x[0]
    elif name == "sumcos":
        a, ph, c = jnp.asarray(p["a"]), jnp.asarray(p["p"]), p["c"]

        def f(v):
            x = flat(v)
            return jnp.sum(a*jnp.cos(x + ph)) + c*jnp.cos(x[0] - x[1])
    elif name == "rosen":
        k = p["k"]

        def f(v):
            x = flat(v)
            return jnp.sum((1. - x[:-1])**2 + k*(x[1:] - x[:-1]**2)**2)
    else:
        raise ValueError(name)
    return f


def selfcheck(ref, x, h=1e-6):
    x = np.asarray(x, float)
    g, H = ref.g(x), ref.h(x)
    gn, Hn = np.zeros_like(g), np.zeros_like(H)
    for i in range(ref.d):
        e = np.zeros(ref.d)
        e[i] = h
        gn[i] = (ref.f(x + e) - ref.f(x - e))/(2*h)
        Hn[:, i] = (ref.g(x + e) - ref.g(x - e))/(2*h)
    return max(np.abs(gn - g).max(), np.abs(Hn - H).max())/(1. + np.abs(g).max() + np.abs(H).max())


# ------------------------------------------------------------------ halving-schedule family
# f(x, y) = a1 x + h1/2 x^2 + q/4 x^4 + a2 y + h2/2 y^2, started at the origin: gradient (a1, a2),
# Hessian diag(h1, h2).  The parameters are tuned so that exactly trial k of the documented schedule of ONE
# Newton-CG iteration is the first that does not raise the energy:
#   trials 0..5:  x0 - 2^-k * n          n  = H^-1 g  (or  g.g/|g.H.g| * g  when g.H.g < 0: CG fallback)
#   trials 6..8:  x0 - 2^-(k-6) * dd     dd = g.g/|g.H.g| * g                (line-search reset)
def halving_params(seed):
    """-> list of (family, designed first successful trial index or None, [a1, h1, q, a2, h2])."""
    a = 1. + 0.01*seed
    out = []
    h = 1./64
    for k in range(6):                      # convex, 1-d along the gradient (y at its minimum)
        L = 1.3*(a/h)/2**k
        out.append(("pos", k, [a, h, 4*(a - 0.5*h*L)/L**3, 0., 1.]))
    for k in range(6):                      # small negative curvature along the gradient
        L = 1.3*(a/h)/2**k
        out.append(("neg", k, [a, -h, 4*(a + 0.5*h*L)/L**3, 0., 1.]))
    for k, q in ((6, 0.25), (7, 2.), (8, 20.), (None, 200.)):   # Newton step 4096x too long in x; reset decides
        out.append(("reset", k, [a, 2.**-12, q*a**-2, a, 1.]))
    return out


def halving_f(x, p):
    a1, h1, q, a2, h2 = p
    return float(a1*x[0] + 0.5*h1*x[0]**2 + 0.25*q*x[0]**4 + a2*x[1] + 0.5*h2*x[1]**2)


def halving_jax(v, p):
    """Same function in jax.numpy; `p` may be a traced array (one compilation serves every parameter set)."""
    t = v.tree if hasattr(v, "tree") else v
    x, y = t["a"][0], t["b"][0]
    return p[0]*x + 0.5*p[1]*x**2 + 0.25*p[2]*x**4 + p[3]*y + 0.5*p[4]*y**2


def halving_reference(p, margin=1e-9):
    """Reference re-implementation of one Newton-CG iteration from the origin.
    -> dict(k=first successful trial index or None, x=expected position, ambiguous=bool, energies=[...])."""
    a1, h1, q, a2, h2 = p
    x0 = np.zeros(2)
    g = np.array([a1, a2])
    H = np.diag([h1, h2])
    gam, c = float(g @ g), float(g @ H @ g)
    if c < 0:
        n = gam/abs(c)*g                      # CG: first direction has negative curvature -> steepest descent step
    else:
        n = np.linalg.solve(H, g)             # CG converges to the Newton step (H positive definite here)
    dd = gam/abs(c)*g
    trials = [x0 - 2.**-k*n for k in range(6)] + [x0 - 2.**-k*dd for k in range(3)]
    e0 = halving_f(x0, p)
    en = [halving_f(t, p) for t in trials]
    for k, (t, e) in enumerate(zip(trials, en)):
        if abs(e - e0) <= margin*(1. + abs(e0)):
            return dict(k=k, x=t, ambiguous=True, energies=en)
        if e <= e0:
            return dict(k=k, x=t, ambiguous=False, energies=en)
    return dict(k=None, x=x0, ambiguous=False, energies=en)
