"""Additions to the C03 expression language used by C04: library operators that live directly on
several input keys (so that their own `_simplify_for_constant_input_nontrivial` rules are reached) and
partial insertion."""
import numpy as np

from vf.ref import c03_expr as X


def _obj(E, name, make):
    if name not in E._cache:
        E._cache[name] = make()
    return E._cache[name]


def _dt(E):
    return np.complex128 if E.cplx else np.float64


def _vc(E):
    return _obj(E, "VCab", lambda: E.ift.VariableCovarianceGaussianEnergy(E.S, "a", "b", _dt(E)))


def _jx(E):
    def make():
        import jax.numpy as jnp
        return E.ift.JaxOperator({"a": E.S, "b": E.S}, E.S, lambda d: d["a"] * jnp.exp(d["b"]) + d["b"])
    return _obj(E, "JXab", make)


def _jl(E):
    def make():
        import warnings
        import jax.numpy as jnp
        ift = E.ift
        dat = E.A["dpos"]
        A = ift.ScalingOperator(E.S, 1.).ducktape("a")
        B = ift.ScalingOperator(E.S, 1.).ducktape("b")
        with warnings.catch_warnings():
            warnings.simplefilter("ignore")
            return ift.JaxLikelihoodEnergyOperator(
                {"a": E.S, "b": E.S}, lambda d: 0.5 * jnp.sum((d["a"] * jnp.exp(d["b"]) - dat) ** 2),
                transformation=A * B.exp(), sampling_dtype=np.float64)
    return _obj(E, "JLab", make)


def _es(E):
    return _obj(E, "ESab", lambda: E.ift.MultiLinearEinsum({"a": E.S, "b": E.S}, "i,i->i"))


def _vc_dtypes(E, inp):
    """VariableCovarianceGaussianEnergy: residual has the sampling dtype, inverse covariance is real"""
    if E.cplx:
        if not np.iscomplexobj(inp["a"]) or np.iscomplexobj(inp["b"]):
            raise X.Outside("VariableCovarianceGaussianEnergy(complex) needs complex residual and real inverse covariance")
        _real_only(E, {"a": inp["b"], "b": inp["b"]}, pos=("b",))
        if np.abs(inp["a"]).max() > 12.:
            raise X.Outside("argument too large")
    else:
        _real_only(E, inp, pos=("b",))


def _real_only(E, inp, pos=()):
    for k in ("a", "b"):
        if np.iscomplexobj(inp[k]):
            raise X.Outside("real-valued likelihood on complex value")
    for k in pos:
        if not np.all(np.asarray(inp[k]) >= .2):
            raise X.Outside("likelihood parameter outside its support")
    if max(np.abs(inp["a"]).max(), np.abs(inp["b"]).max()) > 12.:
        raise X.Outside("argument too large")


def _vc_metric_from(E, fn, inp, keys, cplx, ival):
    """J^T F J for the variable-covariance Gaussian with residual/inverse-covariance given by fn -> {u, v}"""
    J = X.ref_jacobian(fn, inp, keys, cplx)
    i = np.real(ival)
    fct = 1. if E.cplx else 0.5
    Fr = np.concatenate([i, fct / i ** 2, i, np.zeros(X.NPIX)])
    return J.T @ (Fr[:, None] * J)


def _vc_leaf_metric(E, root, path, inp, keys, cplx):
    env = X.ref_env(root, path, E, np, inp)
    return _vc_metric_from(E, lambda d, xp: (lambda e: {"u": e["a"], "v": e["b"]})(X.ref_env(root, path, E, xp, d)),
                           inp, keys, cplx, env["b"])


def _jl_leaf_metric(E, root, path, inp, keys, cplx):
    def f(d, xp):
        e = X.ref_env(root, path, E, xp, d)
        return e["a"] * xp.exp(e["b"])
    J = X.ref_jacobian(f, inp, keys, cplx)
    return J.T @ J


def _vcref(E, xp, r, i):
    if E.cplx:
        return 0.5 * xp.sum(xp.real(xp.conj(r) * r) * xp.real(i)) - xp.sum(xp.log(i))
    return 0.5 * (xp.sum(r * r * i) - xp.sum(xp.log(i)))


X.XLEAVES["VCab"] = X.XLeaf("VCab", "ab", "E", _vc, lambda E, xp, inp: _vcref(E, xp, inp["a"], inp["b"]),
                            _vc_dtypes, _vc_leaf_metric)
X.XLEAVES["JXab"] = X.XLeaf("JXab", "ab", "S", _jx, lambda E, xp, inp: inp["a"] * xp.exp(inp["b"]) + inp["b"],
                            lambda E, inp: X.ptw_guard("exp", inp["b"]))
X.XLEAVES["JLab"] = X.XLeaf("JLab", "ab", "E", _jl,
                            lambda E, xp, inp: 0.5 * xp.sum((inp["a"] * xp.exp(inp["b"]) - E.A["dpos"]) ** 2),
                            lambda E, inp: _real_only(E, inp), _jl_leaf_metric)
X.XLEAVES["ESab"] = X.XLeaf("ESab", "ab", "S", _es, lambda E, xp, inp: inp["a"] * inp["b"])


# ---- partial insertion: an operator on {a, b} fed with a sub-expression on key a only (b stays an input)
def _pins_vc_guard(E, inp, v):
    _vc_dtypes(E, {"a": v, "b": inp["b"]})


def _pins_vc_metric(E, root, path, inp, keys, cplx):
    env = X.ref_env(root, path, E, np, inp)

    def fn(d, xp):
        return {"u": X.ref_sub(root, path + (1,), E, xp, d), "v": X.ref_env(root, path, E, xp, d)["b"]}
    return _vc_metric_from(E, fn, inp, keys, cplx, env["b"])


X.NODES["pinsVC"] = X.Node("pinsVC", 1, lambda t: "E" if t == "S" else None,
                           lambda E, e: _vc(E).partial_insert(e.ducktape_left("a")), None,
                           lambda E, xp, inp, v: _vcref(E, xp, v, inp["b"]), _pins_vc_guard,
                           oponly=True, keys="b", needs_inp=True)
X.METRIC_HOOKS["pinsVC"] = _pins_vc_metric
X.NODES["pinsES"] = X.Node("pinsES", 1, lambda t: "S" if t == "S" else None,
                           lambda E, e: _es(E) @ e.ducktape_left("a"), None,
                           lambda E, xp, inp, v: v * inp["b"], None, oponly=True, keys="b", needs_inp=True)

XLEAF_NAMES = ["VCab", "JXab", "JLab", "ESab"]


# ---- MultiLinearEinsum with three operands, every permutation of key_order, optional static operand -------
# (the Jacobian w.r.t. one operand pairs the two fixed operands with subscripts: any mix-up of the key order is
#  visible because the forms are not symmetric in their operands while all operands have the same shape.
#  Every index occurs in a second operand or in the output: LinearEinsum.adjoint_times cannot broadcast an
#  index that only the differentiated operand carries, e.g. 'i,j,k->i' raises in numpy.einsum.)
import itertools


def _me3(kind, perm):
    """kind v: 'i,i,j->j' on vectors a,b,c | s: same with operand 's' static | m: 'ij,jk,kl->il' on square
    matrices P,Q,R | n: same with Q static.  perm = key_order (operand order of the subscripts)."""
    name = "ME3%s:%s" % (kind, "".join(perm))
    vec = kind in "vs"
    static = {"s": "s", "n": "Q"}.get(kind)
    allk = ("a", "s", "b") if kind == "s" else (("a", "b", "c") if kind == "v" else ("P", "Q", "R"))
    keys = [k for k in allk if k != static]

    def op(E):
        def make():
            ift = E.ift
            dom = {k: E.dom_of(k) for k in keys}
            st = None
            if static:
                st = ift.MultiField.from_dict({static: E.cF if vec else ift.makeField(E.SS, E.A["cm"])})
            return ift.MultiLinearEinsum(dom, "i,i,j->j" if vec else "ij,jk,kl->il", key_order=tuple(perm), static_mf=st)
        return _obj(E, name, make)

    def ref(E, xp, inp):
        def val(k):
            if k == static:
                return xp.asarray(E.A["c"] if vec else E.A["cm"])
            return inp[k] if vec else xp.reshape(inp[k], (X.NPIX, X.NPIX))
        x0, x1, x2 = (val(k) for k in perm)
        if vec:
            return x2 * xp.sum(x0 * x1)
        return x0 @ x1 @ x2
    X.XLEAVES[name] = X.XLeaf(name, keys, "S" if vec else "SS", op, ref)
    return name


ME3_VEC = [_me3(kind, p) for kind, ks in (("v", "abc"), ("s", "asb")) for p in itertools.permutations(ks)]
ME3_MAT = [_me3(kind, p) for kind in "mn" for p in itertools.permutations("PQR")]


# ---- multi-domain-TARGET sums and DIFFERENCES (linear: SumOperator with negated summands; nonlinear: _OpSum of a
#      negated operator), scaling of multi-target operators, and a likelihood living on the two target keys -----
def _sub_fields(a, b):
    return a.flexible_addsub(b, True) if a.jac is None else a - b


def _msub_ref(E, xp, a, b):
    r = dict(a)
    for k, v in b.items():
        r[k] = r[k] - v if k in r else -v
    return r


_MM = {("Mu", "Mu"): "Mu", ("Muv", "Muv"): "Muv", ("Muv", "Mu"): "Muv", ("Mu", "Muv"): "Muv"}
X.NODES["msub"] = X.Node("msub", 2, lambda t1, t2: _MM.get((t1, t2)), lambda E, a, b: a - b,
                         lambda E, a, b: _sub_fields(a, b), _msub_ref)
X.NODES["pairsub"] = X.Node("pairsub", 2, lambda t1, t2: "Muv" if (t1, t2) == ("S", "S") else None,
                            lambda E, a, b: a.ducktape_left("u") - b.ducktape_left("v"),
                            lambda E, a, b: _sub_fields(X._adapt(E, a, "u"), X._adapt(E, b, "v")),
                            lambda E, xp, a, b: {"u": a, "v": -b})
X.NODES["mscale"] = X.Node("mscale", 1, lambda t: t if t in ("Mu", "Muv") else None,
                           lambda E, e: (-E.A["s"]) * e, lambda E, l: (-E.A["s"]) * l,
                           lambda E, xp, v: {k: -E.A["s"] * z for k, z in v.items()})


def _gauss_m(E):
    def make():
        ift = E.ift
        dat = ift.MultiField.from_dict({"u": E.dF, "v": E.cF})
        return ift.GaussianEnergy(data=dat)
    return _obj(E, "gaussM", make)


def _gauss_m_ref(E, xp, v):
    ru, rv = v["u"] - E.A["d"], v["v"] - E.A["c"]
    return 0.5 * (xp.sum(xp.real(ru * xp.conj(ru))) + xp.sum(xp.real(rv * xp.conj(rv))))


def _gauss_m_metric(E, root, path, inp, keys, cplx):
    J = X.ref_jacobian(lambda d, xp: X.ref_sub(root, path + (1,), E, xp, d), inp, keys, cplx)
    return J.T @ J


def _gauss_m_guard(E, v):
    if max(np.abs(np.asarray(z)).max() for z in v.values()) > 40.:
        raise X.Outside("argument too large")


X.NODES["gaussM"] = X.Node("gaussM", 1, lambda t: "E" if t == "Muv" else None,
                           lambda E, e: _gauss_m(E) @ e, lambda E, l: _gauss_m(E)(l), _gauss_m_ref, _gauss_m_guard)
X.METRIC_HOOKS["gaussM"] = _gauss_m_metric
