"""Reference model + expression enumeration for C01 (linear-operator algebra).

Everything here is deliberately boring:

* a *type* is a string: "P", "H", "U", "Q", "R" (DomainTuples) or a MultiDomain
  written "a:P,b:U" (keys sorted);
* a *leaf* has a declared type (dom, tgt), a complex numpy matrix (all leaves
  are complex-linear), a capability bitmask and a constructor for the NIFTy
  object;
* a *tree* is a leaf name or [op, ...]:
      ["add", t, t] ["sub", t, t] ["mul", t, t] (= t @ t)
      ["scale", [re, im], t] ["adj", t] ["inv", t] ["sand", bun, cheese]
* the reference value of a tree is a pair of complex matrices (Rt, Ri) for the
  TIMES and INVERSE_TIMES action (None when the mode has no meaning, e.g. the
  matrix is singular), a structural capability mask, and first-order round-off
  bounds (Et, Ei) used for the comparison tolerance.

No NIFTy import at module level.
"""
import itertools

import numpy as np

EPS = np.finfo(np.float64).eps
TIMES, ADJ, INV, ADJINV = 1, 2, 4, 8
MODES = (TIMES, ADJ, INV, ADJINV)
MODE_NAME = {1: "TIMES", 2: "ADJOINT", 4: "INVERSE", 8: "ADJOINT_INVERSE"}

BASE_SIZE = {"P": 3, "H": 3, "U": 2, "Q": 4, "R": 2}
DIST_P, DIST_Q = 0.5, 0.7


# ------------------------------------------------------------------ types
def is_multi(t):
    return ":" in t


def parts(t):
    """[(key or None, base)]"""
    if is_multi(t):
        return [tuple(kv.split(":")) for kv in t.split(",")]
    return [(None, t)]


def tsize(t):
    return sum(BASE_SIZE[b] for _, b in parts(t))


def tunion(t1, t2):
    """Union of two MultiDomain types or None if incompatible."""
    if not (is_multi(t1) and is_multi(t2)):
        return t1 if t1 == t2 else None
    d = dict(parts(t1))
    for k, b in parts(t2):
        if d.setdefault(k, b) != b:
            return None
    return ",".join("%s:%s" % (k, d[k]) for k in sorted(d))


def embed(M, dom, tgt, bigdom, bigtgt):
    """Zero-padded embedding of a (dom -> tgt) matrix into (bigdom -> bigtgt)."""
    if dom == bigdom and tgt == bigtgt:
        return M

    def offs(t):
        o, d = 0, {}
        for k, b in parts(t):
            d[k] = (o, BASE_SIZE[b])
            o += BASE_SIZE[b]
        return d
    res = np.zeros((tsize(bigtgt), tsize(bigdom)), dtype=np.complex128)
    od, ot, obd, obt = offs(dom), offs(tgt), offs(bigdom), offs(bigtgt)
    for kt, (r0, rn) in ot.items():
        for kd, (c0, cn) in od.items():
            R0, C0 = obt[kt][0], obd[kd][0]
            res[R0:R0 + rn, C0:C0 + cn] = M[r0:r0 + rn, c0:c0 + cn]
    return res


# ------------------------------------------------------------------ numeric fill
class Fill:
    def __init__(self, seed):
        self.rng = np.random.default_rng(7919 + int(seed))

    def mag(self, n):
        return self.rng.uniform(0.5, 2.0, n)

    def rvals(self, n):
        return self.mag(n) * self.rng.choice([-1., 1.], n)

    def cvals(self, n):
        ph = self.rng.uniform(0.3, 1.2, n) + self.rng.choice([0., np.pi / 2, np.pi, 3 * np.pi / 2], n)
        return self.mag(n) * np.exp(1j * ph)

    def rmat(self, m, n):
        u, _ = np.linalg.qr(self.rng.normal(size=(m, m)))
        v, _ = np.linalg.qr(self.rng.normal(size=(n, n)))
        k = min(m, n)
        s = np.zeros((m, n))
        s[:k, :k] = np.diag(self.mag(k))
        return u @ s @ v.T

    def cmat(self, m, n):
        u, _ = np.linalg.qr(self.rng.normal(size=(m, m)) + 1j * self.rng.normal(size=(m, m)))
        v, _ = np.linalg.qr(self.rng.normal(size=(n, n)) + 1j * self.rng.normal(size=(n, n)))
        k = min(m, n)
        s = np.zeros((m, n))
        s[:k, :k] = np.diag(self.mag(k))
        return u @ s @ v.conj().T


def _bdiag(blocks):
    n = sum(b.shape[0] for b in blocks)
    res = np.zeros((n, n), dtype=np.complex128)
    o = 0
    for b in blocks:
        res[o:o + b.shape[0], o:o + b.shape[0]] = b
        o += b.shape[0]
    return res


def _trafo_diag(d, trafo):
    d = np.asarray(d, dtype=np.complex128)
    if trafo & 1:
        d = d.conj()
    if trafo & 2:
        d = 1. / d
    return d


MD = "a:P,b:U"
MDA = "a:P"
MDB = "b:U"


def leaf_table(seed):
    """name -> dict(dom, tgt, M (complex matrix), cap, make(env) -> nifty op).
    Pure numpy; `make` is called later with the NIFTy environment."""
    f = Fill(seed)
    L = {}

    def add(name, dom, tgt, M, cap, make):
        L[name] = dict(name=name, dom=dom, tgt=tgt, M=np.asarray(M, dtype=np.complex128), cap=cap, make=make)

    def scal(name, t, c, dt=None):
        n = tsize(t)
        add(name, t, t, c * np.eye(n), 15,
            lambda e, t=t, c=c, dt=dt: e.ift.ScalingOperator(e.dom(t), c, sampling_dtype=dt))

    def diag(name, t, vals, trafo=0, dt=None):
        vals = np.asarray(vals)
        add(name, t, t, np.diag(_trafo_diag(vals, trafo)), 15,
            lambda e, t=t, vals=vals, trafo=trafo, dt=dt: e.ift.DiagonalOperator(
                e.field(t, vals), sampling_dtype=dt, _trafo=trafo))

    def dense(name, dom, tgt, M, cap, endo=False):
        add(name, dom, tgt, M, cap,
            lambda e, dom=dom, tgt=tgt, M=M, cap=cap: (e.DenseEndo if endo else e.Dense)(
                e.dom(dom), e.dom(tgt), np.array(M), cap))

    # ---- P -> P
    scal("I", "P", 1.)
    scal("Z", "P", 0.)
    scal("Neg", "P", -1.)
    sr = float(f.rvals(1)[0]) * 1.25
    scal("Sr", "P", sr)
    sc = complex(f.cvals(1)[0])
    scal("Sc", "P", sc)
    scal("Srd", "P", float(f.mag(1)[0]) + 0.25, np.float64)
    dr, dr_b, dc = f.rvals(3), f.rvals(3), f.cvals(3)
    diag("Dr", "P", dr)
    diag("Drd", "P", dr_b, dt=np.float64)
    diag("Dc", "P", dc)
    dc1, dc2, dc3, dr2 = f.cvals(3), f.cvals(3), f.cvals(3), f.rvals(3)
    diag("Dc1", "P", dc1, trafo=1)
    diag("Dc2", "P", dc2, trafo=2)
    diag("Dc3", "P", dc3, trafo=3)
    diag("Dr2", "P", dr2, trafo=2)
    m_r, m_c = f.rmat(3, 3), f.cmat(3, 3)
    add("M", "P", "P", m_r, 3, lambda e, m=m_r: e.ift.MatrixProductOperator(e.dom("P"), np.array(m)))
    add("Mc", "P", "P", m_c, 3, lambda e, m=m_c: e.ift.MatrixProductOperator(e.dom("P"), np.array(m)))
    g, g5 = f.cmat(3, 3), f.rmat(3, 3)
    dense("G", "P", "P", g, 15, endo=True)
    dense("G5", "P", "P", g5, TIMES | INV)
    add("N", "P", "P", np.zeros((3, 3)), 3, lambda e: e.ift.NullOperator(e.dom("P"), e.dom("P")))
    # ---- between domains
    k = np.arange(3)
    dft = np.exp(-2j * np.pi * np.outer(k, k) / 3.) * DIST_P
    cas = dft.real + dft.imag     # NIFTy's documented convention: Re(FFT) + Im(FFT) = cos - sin
    add("F", "P", "H", dft, 15, lambda e: e.ift.FFTOperator(e.dom("P"), e.dom("H")[0]))
    add("Hy", "P", "H", cas, 15, lambda e: e.ift.HartleyOperator(e.dom("P"), e.dom("H")[0]))
    dense("Gph", "P", "H", f.cmat(3, 3), 15)
    diag("Dh", "H", f.rvals(3))
    gpu, gup = f.rmat(2, 3), f.cmat(3, 2)
    dense("Gpu", "P", "U", gpu, 3)
    dense("Gup", "U", "P", gup, 3)
    add("Npu", "P", "U", np.zeros((2, 3)), 3, lambda e: e.ift.NullOperator(e.dom("P"), e.dom("U")))
    du = f.rvals(2)
    diag("Du", "U", du)
    su = float(f.rvals(1)[0]) * 1.25
    scal("Su", "U", su)
    # sandwiches (leaves built through SandwichOperator.make)
    add("SW", "P", "P", m_r.conj().T @ np.diag(dr) @ m_r, 3,
        lambda e: e.ift.SandwichOperator.make(e.leaf("M"), e.leaf("Dr")))
    add("SWn", "P", "P", gpu.conj().T @ gpu, 3,
        lambda e: e.ift.SandwichOperator.make(e.leaf("Gpu")))
    add("SWs", "P", "P", abs(sc) ** 2 * np.diag(dc), 15,
        lambda e: e.ift.SandwichOperator.make(e.leaf("Sc"), e.leaf("Dc")))
    # ---- Q = RGSpace(2) x Unstructured(2): partial-space diagonals
    q0, q1, qf, q0t = f.rvals(2), f.cvals(2), f.cvals(4), f.cvals(2)

    def pdiag(name, vals, space, trafo=0):
        full = np.kron(vals, np.ones(2)) if space == 0 else np.kron(np.ones(2), vals)
        sub = "R" if space == 0 else "U"
        add(name, "Q", "Q", np.diag(_trafo_diag(full, trafo)), 15,
            lambda e, vals=vals, space=space, trafo=trafo, sub=sub: e.ift.DiagonalOperator(
                e.field(sub, vals), domain=e.dom("Q"), spaces=space, _trafo=trafo))
    pdiag("Dq0", q0, 0)
    pdiag("Dq1", q1, 1)
    pdiag("Dq0t", q0t, 0, trafo=3)
    diag("Dqf", "Q", qf)
    scal("Sq", "Q", complex(f.cvals(1)[0]))
    mq = f.rmat(2, 2)
    add("Mq0", "Q", "Q", np.kron(mq, np.eye(2)), 3,
        lambda e, m=mq: e.ift.MatrixProductOperator(e.dom("Q"), np.array(m), spaces=(0,)))
    add("C", "Q", "R", np.kron(np.eye(2), np.ones((1, 2))), 3,
        lambda e: e.ift.ContractionOperator(e.dom("Q"), 1))
    # ---- MultiDomain {a: P, b: U}: block-diagonal operators
    I3, I2 = np.eye(3), np.eye(2)

    def bd(name, t, entries, blocks):
        cap = 15
        for nm in entries.values():
            cap &= L[nm]["cap"]
        add(name, t, t, _bdiag(blocks), cap,
            lambda e, t=t, entries=entries: e.ift.BlockDiagonalOperator(
                e.dom(t), {k_: e.leaf(v) for k_, v in entries.items()}))
    bd("Bdd", MD, dict(a="Dr", b="Du"), [np.diag(dr), np.diag(du)])
    bd("Bds", MD, dict(a="Dc", b="Su"), [np.diag(dc), su * I2])
    bd("Bm", MD, dict(a="M", b="Du"), [m_r, np.diag(du)])
    bd("Bg", MD, dict(a="G", b="Du"), [g, np.diag(du)])
    bd("Bma", MD, dict(b="Du"), [I3, np.diag(du)])
    bd("Bmb", MD, dict(a="Dr"), [np.diag(dr), I2])
    bd("Bmb2", MD, dict(a="M"), [m_r, I2])
    scal("Smd", MD, float(f.rvals(1)[0]) * 1.25)
    add("Nmd", MD, MD, np.zeros((5, 5)), 3, lambda e: e.ift.NullOperator(e.dom(MD), e.dom(MD)))
    # an entry that is a plain LinearOperator with domain is target (a ChainOperator)
    add("Bch", MD, MD, _bdiag([m_r @ np.diag(dr), np.diag(du)]), 3,
        lambda e: e.ift.BlockDiagonalOperator(e.dom(MD), dict(a=e.leaf("M") @ e.leaf("Dr"), b=e.leaf("Du"))))
    bd("Ba", MDA, dict(a="Dc"), [np.diag(dc)])
    bd("Bb", MDB, dict(b="Du"), [np.diag(du)])
    return L


FULL = ["I", "Z", "Neg", "Sr", "Sc", "Srd", "Dr", "Drd", "Dc", "Dc1", "Dc2", "Dc3", "Dr2", "M", "Mc", "G", "G5",
        "N", "SW", "SWn", "SWs", "F", "Hy", "Gph", "Dh", "Gpu", "Gup", "Npu", "Du", "Su",
        "Dq0", "Dq1", "Dq0t", "Dqf", "Sq", "Mq0", "C",
        "Bdd", "Bds", "Bm", "Bg", "Bma", "Bmb", "Bmb2", "Smd", "Nmd", "Ba", "Bb"]


# ------------------------------------------------------------------ enumeration
def enumerate_trees(leaf_types, names, max_ops, scalars, sandwich=True):
    """All type-correct trees with <= max_ops operator nodes over the leaves
    `names`.  Returns list of (n_ops, tree) simplest first.
    leaf_types: name -> (dom, tgt)."""
    by = [dict() for _ in range(max_ops + 1)]   # by[k][(dom,tgt)] = [trees with exactly k ops]
    for n in names:
        by[0].setdefault(tuple(leaf_types[n]), []).append(n)
    for k in range(1, max_ops + 1):
        cur = by[k]
        for (d, t), trees in by[k - 1].items():
            for tr in trees:
                cur.setdefault((t, d), []).append(["adj", tr])
                cur.setdefault((t, d), []).append(["inv", tr])
                for c in scalars:
                    cur.setdefault((d, t), []).append(["scale", list(c), tr])
                if sandwich and k == 1:
                    cur.setdefault((d, d), []).append(["sand", tr, None])
        for i in range(k):
            j = k - 1 - i
            for (d1, t1), A in by[i].items():
                for (d2, t2), B in by[j].items():
                    # sums
                    if is_multi(d1) and is_multi(d2) and is_multi(t1) and is_multi(t2):
                        ud, ut = tunion(d1, d2), tunion(t1, t2)
                    elif (d1, t1) == (d2, t2):
                        ud, ut = d1, t1
                    else:
                        ud = ut = None
                    if ud is not None and ut is not None:
                        for a, b in itertools.product(A, B):
                            cur.setdefault((ud, ut), []).append(["add", a, b])
                            cur.setdefault((ud, ut), []).append(["sub", a, b])
                    # chain a @ b : b first
                    if d1 == t2:
                        for a, b in itertools.product(A, B):
                            cur.setdefault((d2, t1), []).append(["mul", a, b])
                    # sandwich bun=a, cheese=b (endomorphic cheese on bun's target)
                    if sandwich and k == 1 and d2 == t2 and t1 == d2:
                        for a, b in itertools.product(A, B):
                            cur.setdefault((d1, d1), []).append(["sand", a, b])
    out = []
    for k in range(max_ops + 1):
        for key in sorted(by[k]):
            for tr in by[k][key]:
                out.append((k, tr))
    return out


def count_trees(leaf_types, names, max_ops, n_scalars, sandwich=True):
    """Same recursion as enumerate_trees, counting only (used by the tier planner)."""
    by = [dict() for _ in range(max_ops + 1)]
    for n in names:
        key = tuple(leaf_types[n])
        by[0][key] = by[0].get(key, 0) + 1
    for k in range(1, max_ops + 1):
        cur = by[k]
        for (d, t), c in by[k - 1].items():
            cur[(t, d)] = cur.get((t, d), 0) + 2 * c
            cur[(d, t)] = cur.get((d, t), 0) + n_scalars * c
            if sandwich and k == 1:
                cur[(d, d)] = cur.get((d, d), 0) + c
        for i in range(k):
            j = k - 1 - i
            for (d1, t1), A in by[i].items():
                for (d2, t2), B in by[j].items():
                    if is_multi(d1) and is_multi(d2) and is_multi(t1) and is_multi(t2):
                        ud, ut = tunion(d1, d2), tunion(t1, t2)
                    elif (d1, t1) == (d2, t2):
                        ud, ut = d1, t1
                    else:
                        ud = ut = None
                    if ud is not None and ut is not None:
                        cur[(ud, ut)] = cur.get((ud, ut), 0) + 2 * A * B
                    if d1 == t2:
                        cur[(d2, t1)] = cur.get((d2, t1), 0) + A * B
                    if sandwich and k == 1 and d2 == t2 and t1 == d2:
                        cur[(d1, d1)] = cur.get((d1, d1), 0) + A * B
    return [sum(b.values()) for b in by]


# ------------------------------------------------------------------ reference evaluation
def _perm_cap(cap, trafo):
    """Capability of the adjoint (trafo 1) / inverse (2) / adjoint-inverse (3):
    mode m of the result is available iff mode m' of the original is, where
    (TIMES, ADJ, INV, ADJINV) are indexed 0..3 and m' = m xor trafo."""
    res = 0
    for i in range(4):
        if cap & (1 << (i ^ trafo)):
            res |= 1 << i
    return res


def _nrm(M):
    return float(np.linalg.norm(M, 2)) if M.size else 0.


def _try_inv(M):
    """(inverse, cond) or (None, inf) for singular / non-square."""
    if M.shape[0] != M.shape[1] or M.size == 0:
        return None, np.inf
    s = np.linalg.svd(M, compute_uv=False)
    if not np.all(np.isfinite(s)) or s[-1] <= 1e-9 * max(s[0], 1e-300) or s[-1] < 1e-12:
        return None, np.inf
    return np.linalg.inv(M), float(s[0] / s[-1])


class Ref:
    """Reference value of an expression."""
    __slots__ = ("dom", "tgt", "Rt", "Ri", "cap", "Et", "Ei", "singular_inverse")

    def __init__(self, dom, tgt, Rt, Ri, cap, Et, Ei, singular_inverse=False):
        self.dom, self.tgt, self.Rt, self.Ri, self.cap, self.Et, self.Ei = dom, tgt, Rt, Ri, cap, Et, Ei
        self.singular_inverse = singular_inverse   # an `inv` node was applied to a singular operand

    def mode_matrix(self, mode):
        if mode == TIMES:
            return self.Rt, self.Et
        if mode == ADJ:
            return (None if self.Rt is None else self.Rt.conj().T), self.Et
        if mode == INV:
            return self.Ri, self.Ei
        return (None if self.Ri is None else self.Ri.conj().T), self.Ei


def _from_times(dom, tgt, Rt, cap, Et, sing=False):
    """Node whose inverse (if any) is computed by inverting the forward result."""
    n = max(Rt.shape)
    Ri, cond = _try_inv(Rt)
    Ei = np.inf if Ri is None else _nrm(Ri) ** 2 * Et + n * EPS * cond * _nrm(Ri)
    return Ref(dom, tgt, Rt, Ri, cap, Et, Ei, sing)


def ref_leaf(L):
    n = max(L["M"].shape)
    return _from_times(L["dom"], L["tgt"], L["M"], L["cap"], n * EPS * _nrm(L["M"]))


def ref_eval(tree, leaves):
    """Reference value of `tree` (raises TypeError if it does not type-check)."""
    if isinstance(tree, str):
        return ref_leaf(leaves[tree])
    op = tree[0]
    if op == "adj":
        x = ref_eval(tree[1], leaves)
        return Ref(x.tgt, x.dom, None if x.Rt is None else x.Rt.conj().T,
                   None if x.Ri is None else x.Ri.conj().T, _perm_cap(x.cap, 1), x.Et, x.Ei, x.singular_inverse)
    if op == "inv":
        x = ref_eval(tree[1], leaves)
        return Ref(x.tgt, x.dom, x.Ri, x.Rt, _perm_cap(x.cap, 2), x.Ei, x.Et,
                   x.singular_inverse or x.Ri is None)
    if op == "scale":
        c = complex(tree[1][0], tree[1][1])
        x = ref_eval(tree[2], leaves)
        Rt = None if x.Rt is None else c * x.Rt
        Ri = None if (x.Ri is None or c == 0) else x.Ri / c
        Et = np.inf if Rt is None else abs(c) * x.Et + EPS * _nrm(Rt)
        Ei = np.inf if Ri is None else x.Ei / abs(c) + EPS * _nrm(Ri)
        return Ref(x.dom, x.tgt, Rt, Ri, x.cap, Et, Ei, x.singular_inverse)
    if op in ("add", "sub"):
        a, b = ref_eval(tree[1], leaves), ref_eval(tree[2], leaves)
        dom, tgt = tunion(a.dom, b.dom), tunion(a.tgt, b.tgt)
        if dom is None or tgt is None:
            raise TypeError("sum of incompatible types")
        cap = (TIMES | ADJ) & a.cap & b.cap
        sing = a.singular_inverse or b.singular_inverse
        if a.Rt is None or b.Rt is None:
            return Ref(dom, tgt, None, None, cap, np.inf, np.inf, sing)
        A, B = embed(a.Rt, a.dom, a.tgt, dom, tgt), embed(b.Rt, b.dom, b.tgt, dom, tgt)
        Rt = A + B if op == "add" else A - B
        Et = a.Et + b.Et + EPS * (_nrm(A) + _nrm(B))
        return _from_times(dom, tgt, Rt, cap, Et, sing)
    if op == "mul":
        a, b = ref_eval(tree[1], leaves), ref_eval(tree[2], leaves)
        if a.dom != b.tgt:
            raise TypeError("chain of incompatible types")
        return _chain(a, b)
    if op == "sand":
        bun = ref_eval(tree[1], leaves)
        bunh = Ref(bun.tgt, bun.dom, None if bun.Rt is None else bun.Rt.conj().T,
                   None if bun.Ri is None else bun.Ri.conj().T, _perm_cap(bun.cap, 1), bun.Et, bun.Ei,
                   bun.singular_inverse)
        if tree[2] is None:
            return _chain(bunh, bun)
        ch = ref_eval(tree[2], leaves)
        if ch.dom != ch.tgt or ch.dom != bun.tgt:
            raise TypeError("sandwich of incompatible types")
        return _chain(bunh, _chain(ch, bun))
    raise ValueError(op)


def _chain(a, b):
    cap = a.cap & b.cap
    sing = a.singular_inverse or b.singular_inverse
    n = max(tsize(a.tgt), tsize(a.dom), tsize(b.dom))
    Rt = Ri = None
    Et = Ei = np.inf
    if a.Rt is not None and b.Rt is not None:
        Rt = a.Rt @ b.Rt
        Et = a.Et * _nrm(b.Rt) + _nrm(a.Rt) * b.Et + n * EPS * _nrm(a.Rt) * _nrm(b.Rt)
    cands = []
    if a.Ri is not None and b.Ri is not None:
        Ri = b.Ri @ a.Ri
        cands.append(b.Ei * _nrm(a.Ri) + _nrm(b.Ri) * a.Ei + n * EPS * _nrm(a.Ri) * _nrm(b.Ri))
    if Rt is not None:
        Ri2, cond = _try_inv(Rt)
        if Ri2 is not None:
            if Ri is None:
                Ri = Ri2
            cands.append(_nrm(Ri2) ** 2 * Et + n * EPS * cond * _nrm(Ri2))
    if Ri is not None:
        Ei = max(cands)
    return Ref(b.dom, a.tgt, Rt, Ri, cap, Et, Ei, sing)
