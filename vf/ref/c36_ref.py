"""Reference model for C36: the defining formulas of the fit-quality diagnostics, in plain numpy.

Residual arrays are built from a five-letter alphabet; further samples of the same case are shifted copies
so that zero / non-zero patterns differ between the samples of one sample set.
"""
import itertools

import numpy as np

LETTERS = {"n": np.nan, "z": 0.0, "p": 1.5, "m": -1.5, "c": 2.0 + 1.0j}
SHIFTS = [0.0, -1.5, 3.0]        # residual of sample k = pattern + SHIFTS[k]  (p -> 0 in sample 2; NaN stays NaN)


def patterns(maxlen, letters="nzpmc"):
    out = []
    for L in range(1, maxlen + 1):
        out += ["".join(t) for t in itertools.product(letters, repeat=L)]
    return out


def is_complex(pat):
    return "c" in pat


def arr(pat):
    dt = np.complex128 if is_complex(pat) else np.float64
    return np.array([LETTERS[c] for c in pat], dtype=dt)


def residuals(pat, ns):
    """list (one per sample) of residual arrays."""
    a = arr(pat)
    return [a + SHIFTS[k] for k in range(ns)]


def rot(pat):
    return pat[1:] + pat[:1]


def content_class(Rs):
    """which ignorable letters occur anywhere in the sample set"""
    allv = np.concatenate([np.asarray(r).reshape(-1) for r in Rs])
    n, z = bool(np.isnan(allv).any()), bool((allv == 0).any())
    return {(False, False): "clean", (True, False): "nan", (False, True): "zero", (True, True): "nan+zero"}[(n, z)]


# ----------------------------------------------------------------------------- classic: NaN and exact zeros ignored
def classic_stats(Rs):
    """Defining formulas of the classic table for one key.
    per sample: valid = not NaN and not exactly 0; chi2_k = sum_valid |r|^2 / #valid; mean_k = sum_valid r / #valid;
    reported: average over the samples; # dof = #valid, # ignored = size - #valid."""
    chi, mean, nval = [], [], []
    for r in Rs:
        r = np.asarray(r)
        valid = ~np.isnan(r) & (r != 0)
        k = int(valid.sum())
        nval.append(k)
        if k == 0:
            chi.append(None)
            mean.append(None)
        else:
            chi.append(float(np.sum(np.abs(r[valid]) ** 2) / k))
            mean.append(complex(np.sum(r[valid]) / k))
    size = int(np.asarray(Rs[0]).size)
    defined = all(c is not None for c in chi)
    return dict(redchisq=(sum(chi) / len(chi)) if defined else None,
                scmean=(sum(mean) / len(mean)) if defined else None,
                nvalid=nval, size=size, counts_vary=len(set(nval)) > 1, some_empty=not defined)


# ----------------------------------------------------------------------------- JAX: nothing ignored, NaN propagates
def jax_stats(Rs):
    """Defining formulas of `reduced_residual_stats` for one leaf: # parameters = number of real components;
    mean_k = sum r / size; chi2_k = sum |r|^2 / #parameters; reported: average over the samples."""
    size = int(np.asarray(Rs[0]).size)
    cplx = np.iscomplexobj(Rs[0])
    ndof = 2 * size if cplx else size
    with np.errstate(all="ignore"):
        mean = [np.sum(r) / size for r in Rs]
        chi = [np.sum(np.abs(r) ** 2) / ndof for r in Rs]
        return dict(mean=complex(np.mean(mean)), redchisq=float(np.mean(chi)), ndof=ndof)


def close(a, b, rtol=1e-12):
    a, b = complex(a), complex(b)
    if np.isnan(a.real) or np.isnan(a.imag) or np.isnan(b.real) or np.isnan(b.imag):
        return (np.isnan(a.real) or np.isnan(a.imag)) and (np.isnan(b.real) or np.isnan(b.imag))
    return abs(a - b) <= rtol * (1.0 + abs(a) + abs(b))
