"""Additional reference families for C12 (JAX likelihoods); same interface as
vf.ref.c11_families (outcomes / nlp (jax) / logpdf (scipy) / score / fisher / tangent)."""
import math

import numpy as np
import scipy.special as sp
import scipy.stats as st

from vf.ref.c11_families import Family, tensor, gauss_hermite, _jnp, _jstats


class StudentTWhitened(Family):
    """z = S (d - theta) has independent Student-t components with nu_i degrees
    of freedom (S symmetric positive definite: the 'square root of the inverse
    noise covariance').  Fisher = S^T diag((nu+1)/(nu+3)) S.  Gauss-Jacobi in
    u = z/sqrt(nu+z^2) as in c11_families.StudentT."""
    name = "studentt_whitened"

    def __init__(self, nu, S):
        self.nu = np.atleast_1d(np.asarray(nu, dtype=np.float64))
        self.S = np.asarray(S, dtype=np.float64)
        self.Sinv = np.linalg.inv(self.S)
        self.theta_dim = self.data_dim = self.nu.size

    def outcomes(self, theta, order=4):
        rules = []
        for nu in self.nu:
            u, w = sp.roots_jacobi(order, nu / 2. - 1., nu / 2. - 1.)
            rules.append((math.sqrt(nu) * u / np.sqrt(1. - u * u), w / w.sum()))
        Z, W = tensor(rules)
        return np.asarray(theta)[None, :] + Z @ self.Sinv.T, W

    def nlp(self, theta, d):
        jnp = _jnp()
        z = jnp.asarray(self.S) @ (d - theta)
        return -_jstats().t.logpdf(z, jnp.asarray(self.nu)).sum() - math.log(abs(np.linalg.det(self.S)))

    def logpdf(self, theta, D):
        Z = (np.asarray(D) - np.asarray(theta)[None, :]) @ self.S.T
        return st.t.logpdf(Z, self.nu[None, :]).sum(axis=1) + math.log(abs(np.linalg.det(self.S)))

    def score(self, theta, D):
        Z = (np.asarray(D) - np.asarray(theta)[None, :]) @ self.S.T
        psi = (self.nu + 1.) * Z / (self.nu + Z * Z)
        return -psi @ self.S

    def fisher(self, theta):
        return self.S.T @ np.diag((self.nu + 1.) / (self.nu + 3.)) @ self.S


class VarStudentTArr(Family):
    """d_i = m_i + s_i t_i, t_i ~ Student-t(nu_i); theta = [m (n), s (n)]."""
    name = "varstudentt"

    def __init__(self, nu):
        self.nu = np.atleast_1d(np.asarray(nu, dtype=np.float64))
        self.n = self.nu.size
        self.theta_dim, self.data_dim = 2 * self.n, self.n

    def outcomes(self, theta, order=5):
        theta = np.asarray(theta)
        rules = []
        for m, s, nu in zip(theta[:self.n], theta[self.n:], self.nu):
            u, w = sp.roots_jacobi(order, nu / 2. - 1., nu / 2. - 1.)
            rules.append((m + s * math.sqrt(nu) * u / np.sqrt(1. - u * u), w / w.sum()))
        return tensor(rules)

    def nlp(self, theta, d):
        return -_jstats().t.logpdf(d, _jnp().asarray(self.nu), loc=theta[:self.n], scale=theta[self.n:]).sum()

    def logpdf(self, theta, D):
        theta = np.asarray(theta)
        return st.t.logpdf(np.asarray(D), self.nu[None, :], loc=theta[None, :self.n],
                           scale=theta[None, self.n:]).sum(axis=1)

    def score(self, theta, D):
        theta = np.asarray(theta)
        m, sc, nu = theta[None, :self.n], theta[None, self.n:], self.nu[None, :]
        z = (np.asarray(D) - m) / sc
        q = (nu + 1.) * z / (nu + z * z)
        return np.concatenate([-q / sc, (1. - q * z) / sc], axis=1)

    def fisher(self, theta):
        s = np.asarray(theta)[self.n:]
        nu = self.nu
        return np.diag(np.concatenate([(nu + 1.) / ((nu + 3.) * s ** 2), 2. * nu / ((nu + 3.) * s ** 2)]))


class NDGauss(Family):
    """rows independent d-dimensional Gaussians  x_r ~ N(m_r, Sigma_r) with
    theta = [m (rows*d), mat (rows*d*d, C order)], mat = Sigma (covariance=True)
    or the precision matrix.  The score is the derivative w.r.t. the d*d matrix
    entries treated as independent coordinates, evaluated at a symmetric matrix;
    the Fisher bilinear form lives on symmetric perturbations (tangent())."""
    name = "ndgauss"

    def __init__(self, rows, d, covariance=True):
        self.rows, self.d, self.covariance = rows, d, covariance
        self.data_dim = rows * d
        self.theta_dim = rows * d + rows * d * d

    def _split(self, theta):
        theta = np.asarray(theta)
        r, d = self.rows, self.d
        return theta[:r * d].reshape(r, d), theta[r * d:].reshape(r, d, d)

    def _cov(self, mat):
        return mat if self.covariance else np.linalg.inv(mat)

    def outcomes(self, theta, order=3):
        m, mat = self._split(theta)
        Z, W = tensor([gauss_hermite(order)] * self.data_dim)
        Z = Z.reshape(len(W), self.rows, self.d)
        X = np.stack([m[r][None, :] + Z[:, r, :] @ np.linalg.cholesky(self._cov(mat[r])).T
                      for r in range(self.rows)], axis=1)
        return X.reshape(len(W), -1), W

    def nlp(self, theta, d):
        jnp = _jnp()
        r, dd = self.rows, self.d
        m = theta[:r * dd].reshape(r, dd)
        mat = theta[r * dd:].reshape(r, dd, dd)
        x = d.reshape(r, dd)
        tot = 0.
        for i in range(r):
            cov = mat[i] if self.covariance else jnp.linalg.inv(mat[i])
            tot = tot - _jstats().multivariate_normal.logpdf(x[i], m[i], cov)
        return tot

    def logpdf(self, theta, D):
        m, mat = self._split(theta)
        X = np.asarray(D).reshape(len(D), self.rows, self.d)
        out = np.zeros(len(D))
        for r in range(self.rows):
            out += np.atleast_1d(st.multivariate_normal(mean=m[r], cov=self._cov(mat[r])).logpdf(X[:, r, :]))
        return out

    def score(self, theta, D):
        m, mat = self._split(theta)
        X = np.asarray(D).reshape(len(D), self.rows, self.d)
        gm, gM = [], []
        for r in range(self.rows):
            res = X[:, r, :] - m[r][None, :]
            if self.covariance:
                Q = np.linalg.inv(mat[r])
                y = res @ Q.T
                gm.append(-y)
                gM.append(0.5 * Q[None] - 0.5 * np.einsum("ki,kj->kij", y, y))
            else:
                gm.append(-res @ mat[r].T)
                gM.append(0.5 * np.einsum("ki,kj->kij", res, res) - 0.5 * np.linalg.inv(mat[r])[None])
        return np.concatenate([np.concatenate(gm, axis=1)] + [np.concatenate([g.reshape(len(D), -1) for g in gM], axis=1)],
                              axis=1)

    def fisher(self, theta):
        m, mat = self._split(theta)
        r, d = self.rows, self.d
        F = np.zeros((self.theta_dim, self.theta_dim))
        for i in range(r):
            Q = np.linalg.inv(mat[i])            # Sigma^-1 (covariance) or P^-1 (precision): the matrix block uses it
            F[i * d:(i + 1) * d, i * d:(i + 1) * d] = Q if self.covariance else mat[i]
            o = r * d + i * d * d
            B = 0.25 * (np.einsum("ik,jl->ijkl", Q, Q) + np.einsum("il,jk->ijkl", Q, Q)).reshape(d * d, d * d)
            F[o:o + d * d, o:o + d * d] = B
        return F

    def tangent(self, theta):
        r, d = self.rows, self.d
        cols = []
        for j in range(r * d):
            v = np.zeros(self.theta_dim)
            v[j] = 1.
            cols.append(v)
        for i in range(r):
            o = r * d + i * d * d
            for a in range(d):
                for b in range(a, d):
                    v = np.zeros(self.theta_dim)
                    v[o + a * d + b] = 1.
                    v[o + b * d + a] = 1.
                    cols.append(v)
        return np.array(cols).T
