"""Reference side of C16: analytic test energies (value, gradient, Hessian written
out by hand in numpy) and the dense BFGS inverse-Hessian recursion.

Nothing here imports NIFTy.  `VERIF_SEED` only changes generic numbers (rotation
angle of the quadratics, offsets of the start grids), never the structure.
"""
import itertools

import numpy as np


# ------------------------------------------------------------------ energies
class Problem:
    """f, grad, hess on plain float64 vectors; `box` = (lo, hi) of the start grid."""
    name = "?"
    d = 2
    convex = False
    box = (-1., 1.)

    def f(self, x):
        raise NotImplementedError

    def g(self, x):
        raise NotImplementedError

    def h(self, x):
        raise NotImplementedError

    def metric(self, x):
        """Positive definite surrogate handed to the library as `Energy.metric`
        (the library documents the metric as positive (semi-)definite): the
        Hessian shifted so that its smallest eigenvalue is >= 0.5."""
        H = self.h(x)
        lmin = np.linalg.eigvalsh(H)[0]
        return H + max(0., 0.5 - lmin)*np.eye(self.d)


def _rotation(d, seed):
    """Fixed generic rotation (product of Givens rotations, angle depends on seed)."""
    Q = np.eye(d)
    ang = 0.6 + 0.37*seed
    for i in range(d):
        for j in range(i+1, d):
            G = np.eye(d)
            c, s = np.cos(ang), np.sin(ang)
            G[i, i] = c
            G[j, j] = c
            G[i, j] = -s
            G[j, i] = s
            Q = Q @ G
            ang += 0.5
    return Q


class Quadratic(Problem):
    convex = True
    box = (-2., 2.)

    def __init__(self, d, kappa, seed):
        self.d = d
        self.name = "quad%g" % kappa
        spec = np.geomspace(1., kappa, d) if kappa > 1 else np.ones(d)
        Q = _rotation(d, seed)
        self.A = (Q*spec) @ Q.T
        self.A = 0.5*(self.A + self.A.T)
        self.b = Q @ (np.arange(1, d+1)*0.3)

    def f(self, x):
        return float(0.5*x @ (self.A @ x) - self.b @ x)

    def g(self, x):
        return self.A @ x - self.b

    def h(self, x):
        return self.A.copy()


class Rosenbrock(Problem):
    name = "rosenbrock"
    box = (-1.5, 1.5)

    def __init__(self, d):
        self.d = d

    def f(self, x):
        return float(np.sum((1. - x[:-1])**2 + 100.*(x[1:] - x[:-1]**2)**2))

    def g(self, x):
        r = np.zeros(self.d)
        r[:-1] += -2.*(1. - x[:-1]) - 400.*x[:-1]*(x[1:] - x[:-1]**2)
        r[1:] += 200.*(x[1:] - x[:-1]**2)
        return r

    def h(self, x):
        H = np.zeros((self.d, self.d))
        for i in range(self.d - 1):
            H[i, i] += 2. - 400.*(x[i+1] - x[i]**2) + 800.*x[i]**2
            H[i, i+1] += -400.*x[i]
            H[i+1, i] += -400.*x[i]
            H[i+1, i+1] += 200.
        return H


class DoubleWell(Problem):
    """sum (x_i^2-1)^2 + 0.3 x_0 + 0.2 x_0 x_1 : non-convex quartic, bounded below."""
    name = "doublewell"
    box = (-1.6, 1.6)

    def __init__(self, d):
        self.d = d

    def f(self, x):
        return float(np.sum((x**2 - 1.)**2) + 0.3*x[0] + 0.2*x[0]*x[1])

    def g(self, x):
        r = 4.*x*(x**2 - 1.)
        r[0] += 0.3 + 0.2*x[1]
        r[1] += 0.2*x[0]
        return r

    def h(self, x):
        H = np.diag(12.*x**2 - 4.)
        H[0, 1] += 0.2
        H[1, 0] += 0.2
        return H


class SumCos(Problem):
    """sum a_i cos(x_i + p_i) + 0.3 cos(x_0 - x_1): bounded, many stationary points."""
    name = "sumcos"
    box = (-2.5, 2.5)

    def __init__(self, d):
        self.d = d
        self.a = 1. + 0.5*np.arange(d)
        self.p = 0.3*np.arange(d)

    def f(self, x):
        return float(np.sum(self.a*np.cos(x + self.p)) + 0.3*np.cos(x[0] - x[1]))

    def g(self, x):
        r = -self.a*np.sin(x + self.p)
        s = 0.3*np.sin(x[0] - x[1])
        r[0] -= s
        r[1] += s
        return r

    def h(self, x):
        H = np.diag(-self.a*np.cos(x + self.p))
        c = 0.3*np.cos(x[0] - x[1])
        H[0, 0] -= c
        H[1, 1] -= c
        H[0, 1] += c
        H[1, 0] += c
        return H


class LogSumExp(Problem):
    """log sum_j exp(w_j.x + c_j) with directions w_j that positively span R^d:
    smooth, convex, bounded below, far from quadratic."""
    name = "logsumexp"
    convex = True
    box = (-2., 2.)

    def __init__(self, d):
        self.d = d
        W = [np.eye(d)[i]*(1. + 0.5*i) for i in range(d)]
        W.append(-np.ones(d)*0.8)
        W.append(np.array([(-1.)**i for i in range(d)])*0.5)
        self.W = np.array(W)
        self.c = 0.2*np.arange(len(W)) - 0.3

    def _p(self, x):
        z = self.W @ x + self.c
        m = z.max()
        e = np.exp(z - m)
        return m, e

    def f(self, x):
        m, e = self._p(x)
        return float(m + np.log(e.sum()))

    def g(self, x):
        _, e = self._p(x)
        p = e/e.sum()
        return self.W.T @ p

    def h(self, x):
        _, e = self._p(x)
        p = e/e.sum()
        mu = self.W.T @ p
        return (self.W.T*p) @ self.W - np.outer(mu, mu)


def problem(name, d, seed):
    if name.startswith("quad"):
        return Quadratic(d, float(name[4:]), seed)
    return dict(rosenbrock=Rosenbrock, doublewell=DoubleWell, sumcos=SumCos,
                logsumexp=LogSumExp)[name](d)


PROBLEMS = ["quad1", "quad10", "quad10000", "rosenbrock", "doublewell", "sumcos", "logsumexp"]


def start_grid(prob, npts, seed):
    """npts^d grid on the problem's box, shifted by a small seed-dependent generic
    offset (so that no start is an exact stationary point by symmetry)."""
    lo, hi = prob.box
    off = 0.0137*(seed + 1)
    ax = [lo + (hi - lo)*i/(npts - 1) + off*(1 + 0.31*i) for i in range(npts)]
    return [list(p) for p in itertools.product(ax, repeat=prob.d)]


def selfcheck(prob, x, h=1e-6):
    """central differences of f / g against g / h (harness sanity; returns max rel. deviation)."""
    x = np.asarray(x, float)
    g, H = prob.g(x), prob.h(x)
    gn = np.zeros_like(g)
    Hn = np.zeros_like(H)
    for i in range(prob.d):
        e = np.zeros(prob.d)
        e[i] = h
        gn[i] = (prob.f(x + e) - prob.f(x - e))/(2*h)
        Hn[:, i] = (prob.g(x + e) - prob.g(x - e))/(2*h)
    sc = 1. + np.abs(g).max() + np.abs(H).max()
    return max(np.abs(gn - g).max(), np.abs(Hn - H).max())/sc


# ------------------------------------------------------------------ dense BFGS
def dense_lbfgs_direction(xs, gs, maxhist):
    """Direction -H_k g_k of limited-memory BFGS in its *explicit matrix* form:
    H = gamma*I with gamma = s.y/y.y of the newest pair, then the BFGS inverse
    update  H <- (I - rho s y^T) H (I - rho y s^T) + rho s s^T  for the last
    `maxhist` pairs, oldest first.  xs, gs: positions / gradients visited since
    the last reset (newest last)."""
    n = len(xs[-1])
    g = np.asarray(gs[-1], float)
    pairs = [(np.asarray(xs[i+1], float) - np.asarray(xs[i], float),
              np.asarray(gs[i+1], float) - np.asarray(gs[i], float)) for i in range(len(xs) - 1)]
    pairs = pairs[-maxhist:] if maxhist > 0 else []
    if not pairs:
        return -g
    s, y = pairs[-1]
    H = (s @ y)/(y @ y)*np.eye(n)
    for s, y in pairs:
        rho = 1./(s @ y)
        V = np.eye(n) - rho*np.outer(y, s)
        H = V.T @ H @ V + rho*np.outer(s, s)
    return -H @ g


def histories(nsym, length, with_reset):
    """All op sequences of exactly `length` over the alphabet {visit point 0..nsym-1, 'R' (reset)}
    such that no curvature pair has s = 0 (two visits of the same point without a reset between)
    and no two resets are adjacent; the first op is a visit.  Shorter histories are prefixes."""
    syms = list(range(nsym)) + (["R"] if with_reset else [])
    out = []

    def rec(seq):
        if len(seq) == length:
            out.append(list(seq))
            return
        for s in syms:
            if not seq and s == "R":
                continue
            if seq and s == seq[-1]:
                continue
            rec(seq + [s])
    rec([])
    return out
