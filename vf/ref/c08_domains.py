"""Domain alphabet and independent reference geometry for C08 (and C10).

The reference half of this module imports neither nifty nor ducc: volumes, k-lengths and binnings are
written from their definitions with plain python loops / numpy.  `build(spec)` is the only function that
touches the library (it constructs the real domain object a spec describes).

Domain specs (JSON-able dicts, all numbers written out):
  {"t":"RG","shape":[..],"dist":None|float|[..],"harm":bool,"via":"direct"|"codomain"}
        via="codomain": the harmonic space is obtained as RGSpace(shape, dist).get_default_codomain()
  {"t":"LM","lmax":l,"mmax":m|None}      {"t":"GL","nlat":a,"nlon":b|None}      {"t":"HP","nside":n}
  {"t":"DOF","w":[..]}
  {"t":"PS","partner":spec,"bb":None | {"kind":"lin"|"log","nbin":n|None} | {"kind":"custom","bounds":[..]}}
"""
import itertools
import math

import numpy as np

RTOL = 1e-12          # comparison of volumes / k-lengths (a handful of float operations)
MERGE = 1e-12         # documented merge tolerance of unique k-lengths (relative to the largest)


# ------------------------------------------------------------------------------------ alphabet
def dist_alphabet(ndim, seed):
    """None, 0.5, 2.0, anisotropic.  The anisotropic triple is the generic numeric fill (VERIF_SEED)."""
    if seed == 0:
        aniso = [0.3, 0.7, 1.1]
    else:
        rng = np.random.default_rng([800, int(seed)])
        aniso = sorted(set(float(np.round(x, 2)) for x in rng.uniform(0.2, 1.6, 12)))[:3]
        rng.shuffle(aniso)
        aniso = [float(a) for a in aniso]
    out = [None, 0.5, 2.0]
    out.append(aniso[0] if ndim == 1 else aniso[:ndim])
    return out


def rg_shapes(nmax, ndims=(1, 2, 3)):
    out = []
    for nd in ndims:
        out += [list(s) for s in itertools.product(range(1, nmax + 1), repeat=nd)]
    out.sort(key=lambda s: (len(s), int(np.prod(s)), s))
    return out


def rg_specs(nmax, seed, ndims=(1, 2, 3)):
    out = []
    for shp in rg_shapes(nmax, ndims):
        for d in dist_alphabet(len(shp), seed):
            out.append(dict(t="RG", shape=shp, dist=d, harm=False, via="direct"))
            out.append(dict(t="RG", shape=shp, dist=d, harm=True, via="direct"))
            out.append(dict(t="RG", shape=shp, dist=d, harm=True, via="codomain"))
    return out


def lm_specs(lmax_max):
    out = []
    for l in range(lmax_max + 1):
        out.append(dict(t="LM", lmax=l, mmax=None))
        for m in range(l + 1):
            out.append(dict(t="LM", lmax=l, mmax=m))
    return out


def gl_specs(nlat_max, nlon_max):
    out = []
    for a in range(1, nlat_max + 1):
        out.append(dict(t="GL", nlat=a, nlon=None))
        for b in range(1, nlon_max + 1):
            out.append(dict(t="GL", nlat=a, nlon=b))
    return out


def hp_specs(nsides):
    return [dict(t="HP", nside=n) for n in nsides]


def dof_specs(seed):
    rng = np.random.default_rng([801, int(seed)])
    gen = [float(np.round(x, 2)) for x in rng.uniform(0.2, 3.0, 4)]
    return [dict(t="DOF", w=w) for w in ([1.0], [2.0, 2.0], [1, 2, 3], [0.5, 0.25, 4.0], gen, [3, 1, 1, 1, 2])]


def harmonic_partners(nmax, lmax_max, seed, ndims=(1, 2, 3)):
    return [s for s in rg_specs(nmax, seed, ndims) if s["harm"]] + lm_specs(lmax_max)


def label(spec):
    t = spec["t"]
    if t == "RG":
        return "RG%s%s" % ("h" if spec["harm"] else "p", len(spec["shape"]))
    if t == "PS":
        bb = spec["bb"]
        return "PS(%s|%s)" % (label(spec["partner"]), "natural" if bb is None else bb["kind"])
    return t


# ------------------------------------------------------------------------------------ library side
def build(spec):
    import nifty.cl as ift
    t = spec["t"]
    if t == "RG":
        d = spec["dist"]
        d = tuple(d) if isinstance(d, list) else d
        shp = tuple(spec["shape"])
        if spec["harm"] and spec["via"] == "codomain":
            return ift.RGSpace(shp, distances=d).get_default_codomain()
        return ift.RGSpace(shp, distances=d, harmonic=spec["harm"])
    if t == "LM":
        return ift.LMSpace(spec["lmax"], spec["mmax"])
    if t == "GL":
        return ift.GLSpace(spec["nlat"], spec["nlon"])
    if t == "HP":
        return ift.HPSpace(spec["nside"])
    if t == "DOF":
        return ift.DOFSpace(np.array(spec["w"]))
    if t == "PS":
        hp = build(spec["partner"])
        bb = spec["bb"]
        if bb is None:
            return ift.PowerSpace(hp)
        if bb["kind"] == "custom":
            return ift.PowerSpace(hp, tuple(bb["bounds"]))
        return ift.PowerSpace(hp, ift.PowerSpace.useful_binbounds(hp, bb["kind"] == "log", bb["nbin"]))
    raise ValueError(spec)


# ------------------------------------------------------------------------------------ reference
def rg_distances(spec):
    """distances of the described grid, from the documented conventions."""
    shp = spec["shape"]
    d = spec["dist"]
    if spec["harm"] and spec["via"] == "direct":
        if d is None:
            return [1.0] * len(shp)                      # "If harmonic==True, all distances will be set to 1"
        return [float(d)] * len(shp) if np.isscalar(d) else [float(x) for x in d]
    if d is None:
        pos = [1.0 / n for n in shp]                     # position space default: 1/npix
    else:
        pos = [float(d)] * len(shp) if np.isscalar(d) else [float(x) for x in d]
    if not spec["harm"]:
        return pos
    return [1.0 / (n * x) for n, x in zip(shp, pos)]     # partner grid: dist' = 1/(n dist)


def lm_layout(lmax, mmax):
    """(l, m, part) of every stored coefficient: m=0 first (real), then for m=1.. : l=m..lmax, (re, im) interleaved."""
    out = [(l, 0, "re") for l in range(lmax + 1)]
    for m in range(1, mmax + 1):
        for l in range(m, lmax + 1):
            out.append((l, m, "re"))
            out.append((l, m, "im"))
    return out


def ref_geom(spec):
    """dict(shape, size, dvol (array of `shape`), uniform, harmonic, karr (array or None), total)"""
    t = spec["t"]
    karr = None
    if t == "RG":
        shp = tuple(spec["shape"])
        dist = rg_distances(spec)
        v = 1.0
        for x in dist:
            v *= x
        dvol = np.full(shp, v)
        uniform, harm = True, spec["harm"]
        if harm:
            karr = np.empty(shp)
            for idx in np.ndindex(*shp):
                s = 0.0
                for i, n, x in zip(idx, shp, dist):
                    s += (min(i, n - i) * x) ** 2        # periodic grid: distance to the origin through the nearer side
                karr[idx] = math.sqrt(s)
    elif t == "LM":
        lmax = spec["lmax"]
        mmax = lmax if spec["mmax"] is None else spec["mmax"]
        lay = lm_layout(lmax, mmax)
        shp = (len(lay),)
        dvol = np.ones(shp)
        uniform, harm = True, True
        karr = np.array([float(l) for l, _, _ in lay])
    elif t == "GL":
        nlat = spec["nlat"]
        nlon = 2 * nlat - 1 if spec["nlon"] is None else spec["nlon"]
        w = np.polynomial.legendre.leggauss(nlat)[1]     # sum 2
        dvol = np.repeat(w * (2 * math.pi / nlon), nlon)
        shp = (nlat * nlon,)
        uniform, harm = False, False
    elif t == "HP":
        n = 12 * spec["nside"] ** 2
        shp = (n,)
        dvol = np.full(shp, 4 * math.pi / n)
        uniform, harm = True, False
    elif t == "DOF":
        dvol = np.array([float(x) for x in spec["w"]])
        shp = dvol.shape
        uniform, harm = False, False
    elif t == "PS":
        r = ref_power(spec)
        if r.get("reject"):
            raise ValueError("reference: " + r["reject"])
        dvol = r["dvol"]
        shp = dvol.shape
        uniform, harm = False, False
    else:
        raise ValueError(spec)
    size = 1
    for n in shp:
        size *= n
    return dict(shape=tuple(shp), size=size, dvol=dvol, uniform=uniform, harmonic=harm, karr=karr,
                total=float(np.sum(dvol)))


def cluster_unique(values, tol_rel=MERGE):
    """sorted distinct values; values closer than tol_rel*max are one value.  Returns (representatives (means),
    cluster index per sorted value, sorted values, ambiguous flag).  ambiguous = some gap lies within two decades
    of the tolerance, where the documented rule 'merge within 1e-12' does not decide."""
    v = np.sort(np.asarray(values, dtype=float).ravel())
    vmax = v[-1] if v.size else 0.0
    tol = tol_rel * vmax
    groups = [[v[0]]]
    amb = False
    for x in v[1:]:
        gap = x - groups[-1][-1]
        if gap != 0 and tol * 1e-2 < gap < tol * 1e2:
            amb = True
        if gap <= tol:
            groups[-1].append(x)
        else:
            groups.append([x])
    return np.array([np.mean(g) for g in groups]), groups, amb


def ref_unique_k(karr):
    reps, groups, amb = cluster_unique(karr)
    return reps, amb


def ref_useful_binbounds(uk, logarithmic, nbin):
    """Documented contract of PowerSpace.useful_binbounds: nbin-1 bounds, first = midpoint of the two smallest
    unique k, last = midpoint of the two largest, equidistant in between in linear / logarithmic scale."""
    lo = 0.5 * (uk[0] + uk[1])
    hi = 0.5 * (uk[-2] + uk[-1])
    n = nbin - 1
    if n == 1:
        return np.array([lo])
    if logarithmic:
        return np.array([lo * (hi / lo) ** (i / (n - 1)) for i in range(n)])
    return np.array([lo + (hi - lo) * i / (n - 1) for i in range(n)])


def ref_binning(karr, bounds, kmax_scale=None):
    """bin of every pixel for inner bounds b_0 < b_1 < ...: bin j holds b_{j-1} < k < b_j.  A k within 1e-9 (relative
    to the largest k) of a bound is 'ambiguous' (the documentation does not say to which side a boundary belongs):
    returned as a pair of admissible bins.  Result: (lo, hi) integer arrays with lo <= true bin <= hi."""
    k = np.asarray(karr, dtype=float)
    b = np.asarray(bounds, dtype=float)
    eps = 1e-9 * (kmax_scale if kmax_scale is not None else max(float(k.max()), float(b.max()) if b.size else 0.0, 1e-300))
    lo = np.zeros(k.shape, dtype=int)
    hi = np.zeros(k.shape, dtype=int)
    for x in b:
        lo += (k > x + eps)
        hi += (k > x - eps)
    return lo, hi


def ref_power(spec, lib_bounds=None):
    """Reference PowerSpace for spec (t == 'PS').  For lin/log binnings the bounds handed to the library are
    needed to place pixels (their contract is checked separately): pass them as lib_bounds, otherwise the
    reference bounds are used.  Returns dict(nbin, lo, hi (admissible bin per pixel), dvol, kmean, ambiguous)
    or dict(reject=reason) when the description is outside the documented domain."""
    pg = ref_geom(spec["partner"])
    karr = pg["karr"]
    uk, amb_u = ref_unique_k(karr)
    bb = spec["bb"]
    pvol = float(pg["dvol"].ravel()[0])
    if bb is None:
        # natural binning: one bin per distinct k-length
        flat = karr.ravel()
        lo = np.array([int(np.argmin(np.abs(uk - x))) for x in flat]).reshape(karr.shape)
        hi = lo.copy()
        nbin = len(uk)
        bounds = None
    else:
        if bb["kind"] == "custom":
            bounds = np.array(bb["bounds"], dtype=float)
        elif lib_bounds is not None:
            bounds = np.asarray(lib_bounds, dtype=float)
        else:
            if len(uk) < 3:
                return dict(reject="fewer than 3 unique k-lengths")
            if bb["nbin"] is None:
                return dict(reject="nbin=None needs the library's bounds")
            bounds = ref_useful_binbounds(uk, bb["kind"] == "log", bb["nbin"])
        lo, hi = ref_binning(karr, bounds, kmax_scale=float(karr.max()) if karr.max() > 0 else 1.0)
        nbin = len(bounds) + 1
    ambiguous = int(np.sum(lo != hi))
    out = dict(nbin=nbin, lo=lo, hi=hi, ambiguous=ambiguous, bounds=bounds, unique_ambiguous=amb_u, pvol=pvol,
               karr=karr, uk=uk)
    if ambiguous == 0:
        cnt = np.bincount(lo.ravel(), minlength=nbin)
        out["count"] = cnt
        out["dvol"] = cnt * pvol
        with np.errstate(invalid="ignore", divide="ignore"):
            out["kmean"] = np.array([np.mean(karr.ravel()[lo.ravel() == b]) if cnt[b] else np.nan for b in range(nbin)])
        out["empty"] = [int(b) for b in range(nbin) if cnt[b] == 0]
    return out


def stats_from_pindex(karr, pindex, nbin, pvol):
    """volumes / mean k per bin for a GIVEN partition (used when some pixel sits on a boundary and the reference
    admits two partitions: sums and averages are then taken over the library's own, admissible, partition)."""
    cnt = np.bincount(np.asarray(pindex).ravel(), minlength=nbin)
    with np.errstate(invalid="ignore", divide="ignore"):
        km = np.array([np.mean(karr.ravel()[np.asarray(pindex).ravel() == b]) if cnt[b] else np.nan for b in range(nbin)])
    return cnt * pvol, km, cnt


def describe(dom):
    """Independent canonical description of a library domain object, read through PUBLIC properties only."""
    name = type(dom).__name__

    def r(x):
        return float("%.11e" % float(x))
    if name == "RGSpace":
        pos = dom if not dom.harmonic else dom.get_default_codomain()
        return ("RG", tuple(dom.shape), tuple(r(x) for x in pos.distances), bool(dom.harmonic))
    if name == "LMSpace":
        return ("LM", int(dom.lmax), int(dom.mmax))
    if name == "GLSpace":
        return ("GL", int(dom.nlat), int(dom.nlon))
    if name == "HPSpace":
        return ("HP", int(dom.nside))
    if name == "DOFSpace":
        return ("DOF", tuple(r(x) for x in dom.dvol))
    if name == "PowerSpace":
        bb = dom.binbounds
        return ("PS", describe(dom.harmonic_partner), None if bb is None else tuple(r(x) for x in bb))
    if name == "UnstructuredDomain":
        return ("U", tuple(dom.shape))
    raise ValueError(name)


def close(a, b, rtol=RTOL, scale=0.0):
    a = np.asarray(a, dtype=float)
    b = np.asarray(b, dtype=float)
    if a.shape != b.shape:
        return False
    return bool(np.all(np.abs(a - b) <= rtol * (np.abs(a) + np.abs(b) + scale)))
