"""Independent geometry / algebra helpers for the C02 reference definitions.

Nothing in this module imports nifty or ducc: pixel volumes, pixel centres,
DFT matrices, real spherical harmonics, loop-einsum, segment/box clipping are
all written from their textbook definitions with numpy / scipy.special only.

Domain specs (JSON-able):
  ["RG", shape, distances, harmonic]   regular grid (explicit distances)
  ["U", shape]                         unstructured
  ["GL", nlat, nlon]                   Gauss-Legendre sphere
  ["HP", nside]                        HEALPix sphere (ring scheme)
  ["LM", lmax, mmax]                   spherical-harmonic coefficients (NIFTy real-ified layout)
"""
import itertools

import numpy as np


# ------------------------------------------------------------------ specs
def spec_shape(spec):
    k = spec[0]
    if k == "RG":
        return tuple(spec[1])
    if k == "U":
        return tuple(spec[1])
    if k == "GL":
        return (spec[1] * spec[2],)
    if k == "HP":
        return (12 * spec[1] ** 2,)
    if k == "LM":
        lmax, mmax = spec[1], spec[2]
        ncplx = (mmax + 1) * (mmax + 2) // 2 + (mmax + 1) * (lmax - mmax)
        return (2 * ncplx - (lmax + 1),)
    raise ValueError(spec)


def tuple_shape(specs):
    s = ()
    for sp in specs:
        s += spec_shape(sp)
    return s


def axes_of(specs, i):
    """numpy axes occupied by sub-space i of the product domain."""
    off = sum(len(spec_shape(sp)) for sp in specs[:i])
    return tuple(range(off, off + len(spec_shape(specs[i]))))


def spec_dvol(spec):
    """Pixel volumes of one space as an array of the space's shape."""
    k = spec[0]
    shp = spec_shape(spec)
    if k == "RG":
        return np.full(shp, float(np.prod(spec[2])))
    if k in ("U", "LM"):
        return np.ones(shp)
    if k == "GL":
        nlat, nlon = spec[1], spec[2]
        w = np.polynomial.legendre.leggauss(nlat)[1]          # sum = 2
        return np.repeat(w * 2 * np.pi / nlon, nlon)
    if k == "HP":
        return np.full(shp, 4 * np.pi / shp[0])
    raise ValueError(spec)


def weight_array(specs, spaces, power):
    """prod_{s in spaces} dvol_s ** power, broadcast to the full product shape."""
    full = tuple_shape(specs)
    w = np.ones(full)
    for i in spaces:
        ax = axes_of(specs, i)
        shp = [1] * len(full)
        for a in ax:
            shp[a] = full[a]
        w = w * spec_dvol(specs[i]).reshape(shp) ** power
    return w


# ------------------------------------------------------------------ sphere
def gl_angles(nlat, nlon):
    x = np.polynomial.legendre.leggauss(nlat)[0]
    theta = np.arccos(x)[::-1]            # north (theta small) to south
    theta = np.sort(theta)
    th = np.repeat(theta, nlon)
    ph = np.tile(2 * np.pi * np.arange(nlon) / nlon, nlat)
    return th, ph


def hp_angles(nside):
    """HEALPix ring-scheme pixel centres (Gorski et al. 2005, eqs. 2-9)."""
    npix = 12 * nside ** 2
    th, ph = np.zeros(npix), np.zeros(npix)
    ncap = 2 * nside * (nside - 1)
    for p in range(npix):
        if p < ncap:                                   # north cap
            ph_ = (p + 1) / 2.
            i = int(np.floor(np.sqrt(ph_ - np.sqrt(np.floor(ph_))))) + 1
            j = p + 1 - 2 * i * (i - 1)
            z = 1 - i * i / (3. * nside ** 2)
            phi = np.pi / (2 * i) * (j - 0.5)
        elif p < npix - ncap:                          # equatorial belt
            pp = p - ncap
            i = pp // (4 * nside) + nside
            j = pp % (4 * nside) + 1
            s = (i - nside + 1) % 2
            z = 4. / 3 - 2. * i / (3 * nside)
            phi = np.pi / (2 * nside) * (j - 1 + s / 2.)   # s = 1: ring shifted by half a pixel; s = 0: first pixel at phi = 0
        else:                                          # south cap
            ps = npix - p
            ph_ = ps / 2.
            i = int(np.floor(np.sqrt(ph_ - np.sqrt(np.floor(ph_))))) + 1
            j = 4 * i + 1 - (ps - 2 * i * (i - 1))
            z = -1 + i * i / (3. * nside ** 2)
            phi = np.pi / (2 * i) * (j - 0.5)
        th[p], ph[p] = np.arccos(z), phi
    return th, ph


def lm_layout(lmax, mmax):
    """NIFTy LMSpace layout: list of (l, m, part) with part in {'r','i'};
    m = 0 entries first (l = 0..lmax), then for m = 1..mmax, l = m..lmax the
    pair (real, imag)."""
    lay = [(l, 0, "r") for l in range(lmax + 1)]
    for m in range(1, mmax + 1):
        for l in range(m, lmax + 1):
            lay.append((l, m, "r"))
            lay.append((l, m, "i"))
    return lay


def sht_matrix(lmax, mmax, th, ph):
    """Real matrix S with map = S @ coeff:  map(p) = (1/sqrt(4 pi)) sum_k c_k R_k(p)
    where R_k are the orthonormal *real* spherical harmonics
    (Y_l0, sqrt2 Re Y_lm, -sqrt2 Im Y_lm).  The overall 1/sqrt(4 pi) is NIFTy's
    normalisation convention (unit monopole coefficient <-> constant map 1/(4 pi))."""
    from scipy.special import sph_harm_y
    lay = lm_layout(lmax, mmax)
    S = np.zeros((th.size, len(lay)))
    for k, (l, m, part) in enumerate(lay):
        Y = sph_harm_y(l, m, th, ph)
        if m == 0:
            S[:, k] = Y.real
        elif part == "r":
            S[:, k] = np.sqrt(2.) * Y.real
        else:
            S[:, k] = -np.sqrt(2.) * Y.imag
    return S / np.sqrt(4 * np.pi)


# ------------------------------------------------------------------ Fourier
def dft_matrix(n, sign):
    k = np.arange(n)
    return np.exp(sign * 2j * np.pi * np.outer(k, k) / n)


def apply_along(x, mat, axis):
    """y[..., k, ...] = sum_n mat[k, n] x[..., n, ...] along `axis`."""
    y = np.tensordot(mat, x, axes=([1], [axis]))
    return np.moveaxis(y, 0, axis)


def dft_axes(x, axes, sign):
    y = np.asarray(x, dtype=np.complex128)
    for a in axes:
        y = apply_along(y, dft_matrix(y.shape[a], sign), a)
    return y


def k_lengths(shape, hdist):
    """|k| on a harmonic regular grid: k_i = min(i, n-i) * hdist per axis."""
    grids = np.meshgrid(*[np.minimum(np.arange(n), n - np.arange(n)) * d
                          for n, d in zip(shape, hdist)], indexing="ij")
    return np.sqrt(sum(g ** 2 for g in grids))


# ------------------------------------------------------------------ einsum by loops
def loop_einsum(subs, *arrs):
    """numpy-subscript einsum evaluated by explicit loops over every index
    assignment (no np.einsum, no paths)."""
    ins, out = subs.split("->")
    ins = ins.split(",")
    assert len(ins) == len(arrs)
    size = {}
    for s, a in zip(ins, arrs):
        assert len(s) == np.ndim(a), (s, np.shape(a))
        for c, n in zip(s, np.shape(a)):
            assert size.setdefault(c, n) == n
    letters = sorted(size)
    res = np.zeros(tuple(size[c] for c in out), dtype=np.result_type(*arrs, np.float64))
    for vals in itertools.product(*[range(size[c]) for c in letters]):
        env = dict(zip(letters, vals))
        p = 1.
        for s, a in zip(ins, arrs):
            p = p * a[tuple(env[c] for c in s)]
        res[tuple(env[c] for c in out)] += p
    return res


# ------------------------------------------------------------------ lines through boxes
def segment_cell_lengths(start, end, shape, dist):
    """Length of the part of the segment start->end (physical coordinates)
    inside every cell of a regular grid whose cell i covers
    [(i-1/2) d, (i+1/2) d) along each axis.  Liang-Barsky clipping per cell."""
    start, end = np.asarray(start, float), np.asarray(end, float)
    d = end - start
    L = np.linalg.norm(d)
    out = np.zeros(shape)
    for idx in np.ndindex(*shape):
        t0, t1 = 0., 1.
        ok = True
        for a in range(len(shape)):
            lo, hi = (idx[a] - 0.5) * dist[a], (idx[a] + 0.5) * dist[a]
            if d[a] == 0:
                if not (lo <= start[a] < hi):
                    ok = False
                    break
            else:
                ta, tb = (lo - start[a]) / d[a], (hi - start[a]) / d[a]
                t0, t1 = max(t0, min(ta, tb)), min(t1, max(ta, tb))
        if ok and t1 > t0:
            out[idx] = (t1 - t0) * L
    return out


# ------------------------------------------------------------------ numeric fill
def fill(n, seed, salt=0, complex_=False, positive=False):
    """Deterministic generic values in +-[0.5, 2] (no sampling): an irrational
    rotation selected by (seed, salt)."""
    k = np.arange(1, n + 1)
    u = np.mod(k * 0.6180339887498949 + 0.137 * seed + 0.31 * salt + 0.2718, 1.)
    v = 0.5 + 1.5 * u
    if not positive:
        sgn = np.where(np.mod(k * 0.7548776662466927 + 0.41 * seed + 0.17 * salt, 1.) < 0.45, -1., 1.)
        v = v * sgn
    if complex_:
        w = np.mod(k * 0.5698402909980532 + 0.29 * seed + 0.53 * salt + 0.1, 1.)
        ph = np.exp(2j * np.pi * (0.08 + 0.84 * w))
        return v * ph
    return v
