"""Reference model for C31: multi-resolution grids as explicit GEOMETRY, numpy + ducc0 only (no jax, no nifty).

A grid level is modelled as a set of cells.  For interval grids (regular, open, "simple open", logarithmic)
every axis of every level is `cell i = [origin + i*w, origin + (i+1)*w]` in a unit coordinate u, and refinement
is *in-place subdivision*: the children of a refined cell are the `s` equal sub-intervals of that very cell.
From that single statement follow shapes, children, parents, coordinates (cell centres) and volumes (cell
sizes); no shift/offset formula of the library is transliterated.  HEALPix cells come from ducc0.  Products,
flat (serial / nest) numbering and sparse numbering are built on top by explicit enumeration.

All index arrays are int64 of shape (ndim, N).
"""
import itertools

import numpy as np


def _mg(shape):
    """all index tuples of a box in C order -> (ndim, prod(shape))"""
    shape = [int(s) for s in shape]
    if len(shape) == 0:
        return np.zeros((0, 1), dtype=np.int64)
    return np.array(list(itertools.product(*[range(s) for s in shape])), dtype=np.int64).reshape(-1, len(shape)).T


def _mg_ranges(ranges):
    return np.array(list(itertools.product(*ranges)), dtype=np.int64).reshape(-1, len(ranges)).T


# ===================================================================================== interval (box) grids
class BoxLevel:
    """One level of a regular / open grid.  Per axis: n cells of width w starting at `origin` (unit coordinate u);
    cells [pad, n - pad) are refined into `split` equal parts (if the level has children)."""
    kind = "box"

    def __init__(self, n, origin, w, split, pad, psplit, ppad, periodic, umap=None):
        self.shape = np.array(n, dtype=np.int64)
        self.ndim = len(n)
        self.origin = np.array(origin, dtype=np.float64)
        self.w = np.array(w, dtype=np.float64)
        self.split = None if split is None else np.array(split, dtype=np.int64)
        self.pad = None if pad is None else np.array(pad, dtype=np.int64)
        self.psplit = None if psplit is None else np.array(psplit, dtype=np.int64)
        self.ppad = None if ppad is None else np.array(ppad, dtype=np.int64)
        self.periodic = periodic
        self.umap = umap          # None | UMap: per-axis monotone map u -> physical coordinate
        self.cdim = self.ndim

    size = property(lambda self: int(np.prod(self.shape)))

    def all_indices(self):
        return _mg(self.shape)

    def refined(self):
        return _mg_ranges([range(int(p), int(n - p)) for n, p in zip(self.shape, self.pad)])

    def is_refined(self, idx):
        if self.split is None:
            return np.zeros(idx.shape[1], dtype=bool)
        return np.all((idx >= self.pad[:, None]) & (idx < (self.shape - self.pad)[:, None]), axis=0)

    def nchildren(self):
        return int(np.prod(self.split))

    def children(self, idx):
        """(ndim, N) refined indices -> (ndim, N, nchildren), C order over the split block.
        The k-th sub-interval of refined cell i is the cell number (i - pad)*split + k of the next level, because
        the next level consists of exactly the sub-intervals of the refined cells, numbered left to right."""
        c = _mg(self.split)                                              # (ndim, nch)
        base = (idx - self.pad[:, None]) * self.split[:, None]
        return base[:, :, None] + c[:, None, :]

    def parent(self, idx):
        return idx // self.psplit[:, None] + self.ppad[:, None]

    def _u(self, pos):
        """pos: float positions in cell units (i = left edge of cell i) -> unit coordinate"""
        return self.origin[:, None] + pos * self.w[:, None]

    def _phys(self, u):
        return u if self.umap is None else self.umap.fwd(u)

    def coord(self, idx):
        return self._phys(self._u(idx + 0.5))

    def edges(self, idx):
        return self._phys(self._u(idx.astype(np.float64))), self._phys(self._u(idx + 1.0))

    def volume(self, idx):
        lo, hi = self.edges(idx)
        return np.prod(hi - lo, axis=0)

    def probes(self, idx):
        """points strictly inside each cell (two per cell: 10% and 90% along the diagonal)"""
        return [self._phys(self._u(idx + f)) for f in (0.1, 0.9)]

    def neigh(self, idx, window):
        """-> (ndim, N, prod(window)) and a mask (N, prod(window)) of entries that are SPECIFIED:
        periodic grids wrap; on an open grid a neighbour outside the grid is unspecified."""
        window = np.array(window, dtype=np.int64)
        c = _mg(window) - (window // 2)[:, None]
        raw = idx[:, :, None] + c[:, None, :]
        if self.periodic:
            return raw % self.shape[:, None, None], np.ones(raw.shape[1:], dtype=bool)
        inside = np.all((raw >= 0) & (raw < self.shape[:, None, None]), axis=0)
        return np.where(inside[None], raw, 0), inside


class UMap:
    """monotone map unit coordinate -> physical coordinate, applied per axis"""

    def __init__(self, kind, **p):
        self.kind, self.p = kind, p
        if kind == "broken":
            r0, rt, r1 = p["r_min"], p["r_linthresh"], p["r_max"]
            # linear on [0,ut] from r0 to rt, exponential on [ut,1] from rt to r1, C1 at ut (documented shape);
            # outside [0,1]: C1 continuation, 1/u below, linear above
            m = (1. - r0 / rt) / np.log(r1 / rt)
            self.ut = m / (1. + m)
            self.beta = np.log(r1 / rt) / (1. - self.ut)
            self.alpha = self.beta * rt

    def fwd(self, u):
        k, p = self.kind, self.p
        if k == "scale":
            return u * np.asarray(p["scale"], dtype=np.float64).reshape((-1,) + (1,) * (u.ndim - 1))
        if k == "log":
            return p["r_min"] * (p["r_max"] / p["r_min"]) ** u
        if k == "broken":
            r0, rt, r1 = p["r_min"], p["r_linthresh"], p["r_max"]
            out = np.empty_like(u)
            a = u < 0
            b = (u >= 0) & (u < self.ut)
            c = (u >= self.ut) & (u < 1)
            d = u >= 1
            # below: r = g/(u - dl) with r(0) = r0, r'(0) = alpha
            dl = r0 / self.alpha
            g = -r0 * dl
            out[a] = g / (u[a] - dl)
            out[b] = r0 + self.alpha * u[b]
            out[c] = rt * np.exp(self.beta * (u[c] - self.ut))
            out[d] = r1 + self.beta * r1 * (u[d] - 1.)
            return out
        raise ValueError(k)


class BoxGrid:
    """anchor = 'coarse': level 0 spans [0,1]^d (Grid, OpenGrid); anchor = 'fine': the finest level starts at 0 with
    cell width `dist` (SimpleOpenGrid and its logarithmic variants)."""

    def __init__(self, shape0, splits, padding=None, anchor="coarse", dist=None, umap=None):
        self.depth = len(splits)
        d = len(shape0)
        periodic = padding is None
        pads = [np.zeros(d, dtype=np.int64)] * self.depth if periodic else [np.array(p, dtype=np.int64) for p in padding]
        splits = [np.array(s, dtype=np.int64) for s in splits]
        shapes = [np.array(shape0, dtype=np.int64)]
        for s, p in zip(splits, pads):
            shapes.append(s * (shapes[-1] - 2 * p))
        self.shapes = shapes
        L = self.depth
        w = [None] * (L + 1)
        o = [None] * (L + 1)
        if anchor == "coarse":
            w[0], o[0] = 1. / shapes[0], np.zeros(d)
            for l in range(L):
                w[l + 1] = w[l] / splits[l]
                o[l + 1] = o[l] + pads[l] * w[l]          # first refined cell's left edge
        else:
            w[L] = (1. / shapes[L]) if dist is None else np.broadcast_to(np.asarray(dist, dtype=np.float64), (d,))
            o[L] = np.zeros(d)
            for l in range(L - 1, -1, -1):
                w[l] = w[l + 1] * splits[l]
                o[l] = o[l + 1] - pads[l] * w[l]
        self.levels = []
        for l in range(L + 1):
            self.levels.append(BoxLevel(
                shapes[l], o[l], w[l],
                splits[l] if l < L else None, pads[l] if l < L else None,
                splits[l - 1] if l > 0 else None, pads[l - 1] if l > 0 else None, periodic, umap))

    def level(self, l):
        return self.levels[l]


# ===================================================================================== HEALPix
class HPLevel:
    kind = "hp"
    ndim = 1
    cdim = 3
    periodic = True
    umap = None

    def __init__(self, nside, split, psplit):
        import ducc0
        self.nside = int(nside)
        self.base = ducc0.healpix.Healpix_Base(self.nside, "NEST")
        self.shape = np.array([12 * self.nside ** 2], dtype=np.int64)
        self.split = None if split is None else np.array([split], dtype=np.int64)
        self.psplit = None if psplit is None else np.array([psplit], dtype=np.int64)

    size = property(lambda self: int(self.shape[0]))

    def all_indices(self):
        return np.arange(self.size, dtype=np.int64)[None]

    def refined(self):
        return self.all_indices()

    def is_refined(self, idx):
        return np.full(idx.shape[1], self.split is not None)

    def nchildren(self):
        return int(self.split[0])

    def children(self, idx):
        # nested scheme: the children of pixel p at resolution nside*2^k are the 4^k pixels 4^k p ... 4^k p + 4^k - 1
        s = int(self.split[0])
        return (idx * s)[:, :, None] + np.arange(s, dtype=np.int64)[None, None, :]

    def parent(self, idx):
        return idx // int(self.psplit[0])

    def coord(self, idx):
        return self.base.pix2vec(idx[0]).T          # (3, N)

    def volume(self, idx):
        return np.full(idx.shape[1], 4 * np.pi / self.size)

    def probes(self, idx):
        return [self.coord(idx)]

    def true_neighbours(self, idx):
        """(N, 8) in healpy order SW, W, NW, N, NE, E, SE, S; -1 where the pixel has only 7 neighbours"""
        return np.asarray(self.base.neighbors(idx[0]), dtype=np.int64)

    def neigh(self, idx, window):
        w = int(window[0])
        N = idx.shape[1]
        if w == 1:
            return idx[:, :, None], np.ones((N, 1), dtype=bool)
        if w == self.size:
            return ((idx[0][:, None] + np.arange(self.size)[None, :]) % self.size)[None], np.ones((N, w), dtype=bool)
        if w == 9:
            nb = self.true_neighbours(idx)
            out = np.concatenate([idx[0][:, None], nb], axis=1)
            return np.where(out >= 0, out, 0)[None], out >= 0
        raise NotImplementedError


class HPGrid:
    def __init__(self, nside0, splits):
        self.depth = len(splits)
        ns = [int(nside0)]
        for s in splits:
            k = {1: 1, 4: 2, 16: 4, 64: 8}[int(s)]
            ns.append(ns[-1] * k)
        self.levels = [HPLevel(ns[l], splits[l] if l < self.depth else None, splits[l - 1] if l > 0 else None)
                       for l in range(self.depth + 1)]

    def level(self, l):
        return self.levels[l]


# ===================================================================================== products
class ProdLevel:
    kind = "prod"

    def __init__(self, parts, radial=False):
        self.parts = parts
        self.radial = radial       # HEALPix x radial: coordinate = unit vector * r, volume = solid angle * shell
        self.ndim = sum(p.ndim for p in parts)
        self.shape = np.concatenate([p.shape for p in parts])
        off = np.cumsum([0] + [p.ndim for p in parts])
        self.sl = [slice(int(a), int(b)) for a, b in zip(off[:-1], off[1:])]
        self.split = None if parts[0].split is None else np.concatenate([p.split for p in parts])
        self.cdim = 3 if radial else sum(p.cdim for p in parts)
        self.periodic = all(p.periodic for p in parts)

    size = property(lambda self: int(np.prod(self.shape)))

    def _cart(self, arrs):
        """list of (nd_k, N_k) -> (sum nd_k, prod N_k): cartesian product, first factor slowest"""
        Ns = [a.shape[1] for a in arrs]
        out = []
        for k, a in enumerate(arrs):
            reps_after = int(np.prod(Ns[k + 1:]))
            reps_before = int(np.prod(Ns[:k]))
            out.append(np.tile(np.repeat(a, reps_after, axis=1), (1, reps_before)))
        return np.concatenate(out, axis=0)

    def all_indices(self):
        return self._cart([p.all_indices() for p in self.parts])

    def refined(self):
        return self._cart([p.refined() for p in self.parts])

    def is_refined(self, idx):
        return np.all([p.is_refined(idx[s]) for p, s in zip(self.parts, self.sl)], axis=0)

    def nchildren(self):
        return int(np.prod([p.nchildren() for p in self.parts]))

    def _cart_last(self, arrs):
        """list of (nd_k, N, M_k) -> (sum nd_k, N, prod M_k), first factor slowest"""
        Ms = [a.shape[2] for a in arrs]
        out = []
        for k, a in enumerate(arrs):
            after = int(np.prod(Ms[k + 1:]))
            before = int(np.prod(Ms[:k]))
            out.append(np.tile(np.repeat(a, after, axis=2), (1, 1, before)))
        return np.concatenate(out, axis=0)

    def children(self, idx):
        return self._cart_last([p.children(idx[s]) for p, s in zip(self.parts, self.sl)])

    def parent(self, idx):
        return np.concatenate([p.parent(idx[s]) for p, s in zip(self.parts, self.sl)], axis=0)

    def coord(self, idx):
        cs = [p.coord(idx[s]) for p, s in zip(self.parts, self.sl)]
        if self.radial:
            return cs[0] * cs[1]
        return np.concatenate(cs, axis=0)

    def volume(self, idx):
        if self.radial:
            lo, hi = self.parts[1].edges(idx[self.sl[1]])
            return self.parts[0].volume(idx[self.sl[0]]) * (hi[0] ** 3 - lo[0] ** 3) / 3.
        return np.prod([p.volume(idx[s]) for p, s in zip(self.parts, self.sl)], axis=0)

    def probes(self, idx):
        ps = [p.probes(idx[s]) for p, s in zip(self.parts, self.sl)]
        n = max(len(p) for p in ps)
        out = []
        for k in range(n):
            cs = [p[k % len(p)] for p in ps]
            out.append(cs[0] * cs[1] if self.radial else np.concatenate(cs, axis=0))
        return out

    def neigh(self, idx, window):
        """window: list (one entry per part) of per-part windows"""
        res = [p.neigh(idx[s], w) for p, s, w in zip(self.parts, self.sl, window)]
        nb = self._cart_last([r[0] for r in res])
        mk = self._cart_last([r[1][None] for r in res])
        return nb, np.all(mk, axis=0)


class ProdGrid:
    def __init__(self, grids, radial=False):
        self.grids, self.radial = grids, radial
        self.depth = grids[0].depth

    def level(self, l):
        return ProdLevel([g.level(l) for g in self.grids], self.radial)


# ===================================================================================== flat numbering
class Numbering:
    """flat number of every multi-index of every level of a grid, by explicit construction.

    serial: C-order position in the level's own shape.
    nest:   level 0 is numbered in C order; the children of cell number f get the numbers f*S ... f*S+S-1 in the
            C order of the split block (S = number of children), like HEALPix' nested scheme."""

    def __init__(self, grid, ordering):
        self.grid, self.ordering = grid, ordering
        self.tables = []         # per level: dict index-tuple -> flat, and inverse array (ndim, size)
        for l in range(grid.depth + 1):
            lv = grid.level(l)
            allidx = lv.all_indices()
            if ordering == "serial" or l == 0:
                flat = np.arange(allidx.shape[1], dtype=np.int64)
                fwd = {tuple(allidx[:, k]): int(flat[k]) for k in range(allidx.shape[1])}
            else:
                prev = grid.level(l - 1)
                pidx = prev.refined()
                ch = prev.children(pidx)                   # (ndim, Np, S)
                S = ch.shape[2]
                fwd = {}
                pf = self.tables[l - 1][0]
                for k in range(pidx.shape[1]):
                    f = pf[tuple(pidx[:, k])]
                    for c in range(S):
                        fwd[tuple(ch[:, k, c])] = f * S + c
            inv = np.zeros((allidx.shape[0], max(fwd.values()) + 1), dtype=np.int64) - 1
            for t, f in fwd.items():
                inv[:, f] = t
            self.tables.append((fwd, inv))

    def flat(self, l, idx):
        fwd = self.tables[l][0]
        return np.array([fwd[tuple(idx[:, k])] for k in range(idx.shape[1])], dtype=np.int64)[None]

    def flat_nd(self, l, idx):
        """idx (ndim, ...) -> (1, ...)"""
        sh = idx.shape[1:]
        return self.flat(l, idx.reshape(idx.shape[0], -1)).reshape((1,) + sh)

    def unflat(self, l, f):
        return self.tables[l][1][:, f[0]]


class FlatLevel:
    kind = "flat"
    ndim = 1

    def __init__(self, num, l, sel=None):
        """sel: None (dense flat grid) or per-level sorted arrays of flat numbers (sparse grid; positions in `sel`
        are the indices)."""
        self.num, self.l, self.sel = num, l, sel
        self.inner = num.grid.level(l)
        n = self.inner.size if sel is None else len(sel[l])
        self.shape = np.array([n], dtype=np.int64)
        self.split = None if self.inner.split is None else np.array([self.inner.nchildren()])
        self.cdim = self.inner.cdim
        self.periodic = self.inner.periodic

    size = property(lambda self: int(self.shape[0]))

    # -- index <-> inner multi-index
    def _to_inner(self, idx, shift=0):
        f = idx if self.sel is None else np.asarray(self.sel[self.l + shift])[idx[0]][None]
        return self.num.unflat(self.l + shift, f)

    def _from_inner(self, midx, shift=0):
        """(ndim, ...) -> (1, ...) indices of this grid; -1 where the cell is not part of a sparse grid"""
        f = self.num.flat_nd(self.l + shift, midx)
        if self.sel is None:
            return f
        s = np.asarray(self.sel[self.l + shift])
        pos = np.searchsorted(s, f)
        posc = np.clip(pos, 0, len(s) - 1)
        return np.where(s[posc] == f, posc, -1)

    def all_indices(self):
        return np.arange(self.size, dtype=np.int64)[None]

    def is_refined(self, idx):
        m = self.inner.is_refined(self._to_inner(idx))
        if self.sel is None or self.inner.split is None:
            return m
        mi = self._to_inner(idx)
        out = np.zeros(idx.shape[1], dtype=bool)
        for k in np.nonzero(m)[0]:
            ch = self._from_inner(self.inner.children(mi[:, k:k + 1]), +1)
            out[k] = bool(np.all(ch >= 0))
        return out

    def refined(self):
        """library order: serial -> the inner refined cells in C order; nest/sparse -> ascending"""
        a = self.all_indices()
        r = a[:, self.is_refined(a)]
        if self.sel is None and self.num.ordering == "serial":
            return self._from_inner(self.inner.refined())
        return r

    def nchildren(self):
        return self.inner.nchildren()

    def children(self, idx):
        return self._from_inner(self.inner.children(self._to_inner(idx)), +1)

    def parent(self, idx):
        return self._from_inner(self.inner.parent(self._to_inner(idx)), -1)

    def coord(self, idx):
        return self.inner.coord(self._to_inner(idx))

    def volume(self, idx):
        return self.inner.volume(self._to_inner(idx))

    def probes(self, idx):
        return self.inner.probes(self._to_inner(idx))

    def neigh(self, idx, window):
        nb, mk = self.inner.neigh(self._to_inner(idx), window)
        out = self._from_inner(nb)
        mk = mk & (out[0] >= 0)
        return np.where(mk[None], out, 0), mk


class FlatGrid:
    def __init__(self, grid, ordering, sel=None):
        self.grid, self.ordering, self.sel = grid, ordering, sel
        self.depth = grid.depth
        self.num = Numbering(grid, ordering)

    def level(self, l):
        return FlatLevel(self.num, l, self.sel)
