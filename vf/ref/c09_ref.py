"""Independent reference definitions for C09 (harmonic transforms).  No nifty, ducc, scipy.fft or jax.

Everything is written from the textbook definitions as explicit O(N^2) matrices over ALL multi-indices
of the array (no separable shortcuts, no FFT):

  Fourier   F[k, n] = exp(sign * 2 pi i * sum_a k_a n_a / N_a)           (a over the transformed axes,
  Hartley   H[k, n] = cos(phi) + s * sin(phi),  phi = 2 pi sum_a k_a n_a / N_a      identity on the others)
            s = +1 "canonical_hartley"  (the DHT of the literature, = Re F_fwd - Im F_fwd)
            s = -1 "non_canonical_hartley" (NIFTy default, ducc's old convention, = Re F_fwd + Im F_fwd)
"""
import itertools

import numpy as np


def phase_delta(full_shape, axes):
    """(phi, delta): phi[k, n] = sum_{a in axes} k_a n_a / N_a over flattened multi-indices (C order);
    delta[k, n] = 1 where all non-transformed indices coincide."""
    full_shape = tuple(int(s) for s in full_shape)
    N = int(np.prod(full_shape, dtype=int))
    idx = np.array(list(itertools.product(*[range(s) for s in full_shape])), dtype=np.int64).reshape(N, len(full_shape))
    phi = np.zeros((N, N))
    delta = np.ones((N, N), dtype=bool)
    for a in range(len(full_shape)):
        if a in axes:
            phi += np.multiply.outer(idx[:, a], idx[:, a]) / float(full_shape[a])
        else:
            delta &= np.equal.outer(idx[:, a], idx[:, a])
    return phi, delta


def fourier_matrix(full_shape, axes, sign):
    phi, delta = phase_delta(full_shape, axes)
    return np.where(delta, np.exp(sign * 2j * np.pi * phi), 0.)


def hartley_matrix(full_shape, axes, convention):
    s = {"canonical_hartley": 1., "non_canonical_hartley": -1.}[convention]
    phi, delta = phase_delta(full_shape, axes)
    return np.where(delta, np.cos(2 * np.pi * phi) + s * np.sin(2 * np.pi * phi), 0.)


def realify(M):
    M = np.asarray(M)
    return np.block([[M.real, -M.imag], [M.imag, M.real]])


def zero_mode_rows(full_shape, axes):
    """Flat indices k whose transformed-axes indices are all 0, and for each the flat input indices n
    that share k's non-transformed indices (the pixels integrated into that zero mode)."""
    full_shape = tuple(int(s) for s in full_shape)
    idx = list(itertools.product(*[range(s) for s in full_shape]))
    rows = []
    for k, ik in enumerate(idx):
        if all(ik[a] == 0 for a in axes):
            members = [n for n, i_n in enumerate(idx)
                       if all(i_n[a] == ik[a] for a in range(len(full_shape)) if a not in axes)]
            rows.append((k, members))
    return rows


# ---------------------------------------------------------------------------- Gaussian smoothing
def k_principal(n, dist):
    """Physical frequency of harmonic pixel j on an n-pixel axis of pixel size `dist`: the alias of
    smallest magnitude, |k_j| = min(j, n-j) / (n dist)."""
    j = np.arange(n)
    return np.minimum(j, n - j) / (n * dist)


def smoothing_matrix_harmonic(shape, dist, sigma):
    """Circulant matrix of: forward DFT, multiply by the Fourier transform exp(-2 pi^2 sigma^2 |k|^2) of a
    unit-integral Gaussian of standard deviation sigma evaluated at the principal frequencies, inverse DFT."""
    shape = tuple(shape)
    N = int(np.prod(shape))
    ks = np.meshgrid(*[k_principal(n, d) for n, d in zip(shape, dist)], indexing="ij")
    k2 = sum(k * k for k in ks).reshape(-1)
    ker = np.exp(-2. * np.pi ** 2 * sigma ** 2 * k2)
    ax = tuple(range(len(shape)))
    F = fourier_matrix(shape, ax, -1)
    Fi = fourier_matrix(shape, ax, +1) / N
    return (Fi * ker[None, :]) @ F, float(1. / ker.min())


def periodised_gaussian_1d(n, dist, sigma, wraps=60):
    """c[x] = dist * sum_w G(x dist + w L), G the unit-integral Gaussian density of std sigma, L = n dist:
    the weights with which a periodic pixelised signal is convolved in POSITION space."""
    x = np.arange(n) * dist
    L = n * dist
    w = np.arange(-wraps, wraps + 1)
    t = x[:, None] + w[None, :] * L
    return dist * (np.exp(-t * t / (2 * sigma * sigma)) / np.sqrt(2 * np.pi * sigma * sigma)).sum(axis=1)


def alias_defect_1d(n, dist, sigma, mmax=200):
    """max_j | DFT(periodised Gaussian)[j] - exp(-2 pi^2 sigma^2 k_j^2) | = sum over all non-principal
    aliases (Poisson summation), computed explicitly."""
    j = np.arange(n)
    L = n * dist
    m = np.arange(-mmax, mmax + 1)
    kk = (j[:, None] + m[None, :] * n) / L
    tot = np.exp(-2 * np.pi ** 2 * sigma ** 2 * kk ** 2).sum(axis=1)
    princ = np.exp(-2 * np.pi ** 2 * sigma ** 2 * k_principal(n, dist) ** 2)
    return float(np.abs(tot - princ).max())


def smoothing_matrix_position(shape, dist, sigma):
    """(C, bound): C = convolution matrix with the sampled periodised Gaussian (product over axes);
    bound >= max |C - harmonic-definition matrix| from the explicit alias sums."""
    shape = tuple(shape)
    mats, defects = [], []
    for n, d in zip(shape, dist):
        c = periodised_gaussian_1d(n, d, sigma)
        mats.append(np.array([[c[(x - y) % n] for y in range(n)] for x in range(n)]))
        defects.append(alias_defect_1d(n, d, sigma))
    C = mats[0]
    for m in mats[1:]:
        C = np.kron(C, m)
    dm = max(defects)
    bound = sum(defects) * (1. + dm) ** (len(shape) - 1)
    return C, float(bound)


def embed(M, full_shape, axes):
    """Matrix acting as M (given on the C-ordered sub-array of `axes`, which must be contiguous and
    ascending) on the transformed axes and as the identity on the others, over the C-ordered full array."""
    full_shape = tuple(full_shape)
    axes = tuple(axes)
    pre = int(np.prod(full_shape[:axes[0]], dtype=int))
    post = int(np.prod(full_shape[axes[-1] + 1:], dtype=int))
    return np.kron(np.kron(np.eye(pre), M), np.eye(post))


# ---------------------------------------------------------------------------- numeric fill
def fill(n, seed, salt=0):
    """Deterministic generic values in +-[0.5, 2] selected by (seed, salt); no sampling."""
    k = np.arange(1, n + 1)
    u = np.mod(k * 0.6180339887498949 + 0.137 * seed + 0.31 * salt + 0.2718, 1.)
    sgn = np.where(np.mod(k * 0.7548776662466927 + 0.41 * seed + 0.17 * salt, 1.) < 0.45, -1., 1.)
    return (0.5 + 1.5 * u) * sgn


def dist_alphabet(ndim, seed, which):
    """Distance alphabets: 'unit' -> 1.0 per axis, 'generic' -> distinct seed-dependent values in [0.2, 2)."""
    if which == "unit":
        return [1.0] * ndim
    base = [0.3, 1.7, 0.65]
    return [round(base[a % 3] * (1. + 0.11 * ((seed + a) % 5)), 4) for a in range(ndim)]
