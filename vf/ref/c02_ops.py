"""C02: per-class configuration alphabets + independent reference definitions.

Every entry of REGISTRY is  name -> (configs(tier) -> list of JSON-able cfg dicts,
                                     build(cfg, seed) -> Built)
`Built.ref` is a few-line numpy function written from the operator's
*documented* definition (never from its code path): it maps the input array
(dict key->array for MultiDomains) to the output array.  The driver densifies
both the operator and the reference on the full real/imaginary unit basis.

nifty is imported lazily (inside functions) so that the parent stays fork-safe.
"""
import itertools

import numpy as np

from vf.ref import c02_geom as G

# ---------------------------------------------------------------- domain alphabet
R2 = ["RG", [2], [0.5], False]
R3 = ["RG", [3], [0.5], False]
R4 = ["RG", [4], [0.25], False]
R5 = ["RG", [5], [0.4], False]
R1 = ["RG", [1], [0.5], False]
R23 = ["RG", [2, 3], [0.5, 2.0], False]
R32 = ["RG", [3, 2], [0.3, 0.7], False]
R22 = ["RG", [2, 2], [0.5, 0.25], False]
R24 = ["RG", [2, 4], [0.5, 0.25], False]
R44 = ["RG", [4, 4], [0.5, 0.25], False]
R12 = ["RG", [1, 2], [0.5, 2.0], False]
R11 = ["RG", [1, 1], [0.5, 2.0], False]
H2 = ["RG", [2], [0.7], True]
H3 = ["RG", [3], [0.7], True]
H4 = ["RG", [4], [0.5], True]
H23 = ["RG", [2, 3], [0.5, 1.0], True]
H33 = ["RG", [3, 3], [0.5, 0.5], True]
U1 = ["U", [1]]
U2 = ["U", [2]]
U3 = ["U", [3]]
U4 = ["U", [4]]
U22 = ["U", [2, 2]]
U12 = ["U", [1, 2]]
GL23 = ["GL", 2, 3]
GL35 = ["GL", 3, 5]
HP1 = ["HP", 1]
LM1 = ["LM", 1, 1]
LM2 = ["LM", 2, 2]
LM21 = ["LM", 2, 1]


def ift():
    import nifty.cl as ift_
    return ift_


def mkspace(spec):
    I = ift()
    k = spec[0]
    if k == "RG":
        return I.RGSpace(tuple(spec[1]), distances=tuple(spec[2]), harmonic=bool(spec[3]))
    if k == "U":
        return I.UnstructuredDomain(tuple(spec[1]))
    if k == "GL":
        return I.GLSpace(spec[1], spec[2])
    if k == "HP":
        return I.HPSpace(spec[1])
    if k == "LM":
        return I.LMSpace(spec[1], spec[2])
    raise ValueError(spec)


def mkdom(specs):
    return ift().DomainTuple.make(tuple(mkspace(s) for s in specs))


def mkmdom(mspec):
    return ift().MultiDomain.make({k: mkdom(v) for k, v in mspec.items()})


def fld(dom, arr):
    return ift().makeField(dom, np.array(arr))


def vals(shape, seed, salt=0, cplx=False, positive=False):
    n = int(np.prod(shape, dtype=int))
    return G.fill(n, seed, salt, cplx, positive).reshape(shape)


def codomain_spec(spec):
    """Default RG codomain: same shape, distances 1/(n d), flipped harmonic flag."""
    assert spec[0] == "RG"
    return ["RG", list(spec[1]), [1. / (n * d) for n, d in zip(spec[1], spec[2])], not spec[3]]


def subsets(n, nonempty=True):
    out = []
    for r in range(1 if nonempty else 0, n + 1):
        out += [list(c) for c in itertools.combinations(range(n), r)]
    return out


class Built:
    def __init__(self, op, ref, tol=1e-10, rejects=None, cap=None, linear="complex", note="", adj_tol=None,
                 dom_shape=None, tgt_shape=None, tag="", cond=1., inv_tol=None):
        self.op = op              # the nifty operator
        self.ref = ref            # numpy reference definition of TIMES (or None: consistency checks only)
        self.tol = tol            # tolerance of operator-vs-reference (documented accuracy of the operator)
        self.adj_tol = adj_tol if adj_tol is not None else max(tol, 1e-10) if tol > 1e-9 else 1e-10
        self.rejects = rejects or {}   # {(mode_name, dtype): reason} documented / explicit rejections
        self.cap = cap            # minimal capability the class documents (bitmask) or None
        self.linear = linear      # "complex" or "real": what the class claims
        self.note = note
        self.dom_shape = dom_shape
        self.tgt_shape = tgt_shape
        self.tag = tag            # semantic discriminator that goes into finding keys
        self.cond = cond          # known condition number of the constructed operator (for the inverse checks)
        self.inv_tol = inv_tol


REGISTRY = {}
ORDER = []


def register(name):
    def deco(pair):
        REGISTRY[name] = pair()
        ORDER.append(name)
        return pair
    return deco


def T(tier, quick, thorough):
    return quick if tier == "quick" else thorough


# ================================================================ contraction / integration
@register("ContractionOperator")
def _contraction():
    def configs(tier):
        doms = T(tier, [[R3], [R23], [U2, R3], [R2, GL23], [R2, U2, R3]],
                 [[R3], [R23], [U2, R3], [R2, GL23], [R2, U2, R3], [GL23, R23], [HP1, U2], [R23, U22, R2]])
        powers = T(tier, [0, 1, 2], [0, 1, 2, -1, 3])
        out = []
        for d in doms:
            for sp in [None] + subsets(len(d)):
                # volume weights exist only for structured spaces: power != 0 over an UnstructuredDomain is outside the premise
                unstructured = any(d[i][0] == "U" for i in (range(len(d)) if sp is None else sp))
                for p in powers:
                    if p == 0 or not unstructured:
                        out.append(dict(dom=d, spaces=sp, power=p, via="Contraction"))
                if not unstructured:
                    out.append(dict(dom=d, spaces=sp, power=1, via="Integration"))
            if len(d) >= 2:       # a plain int is documented too
                out.append(dict(dom=d, spaces=1, power=0, via="Contraction"))
        return out

    def build(c, seed):
        I = ift()
        dom = mkdom(c["dom"])
        sp = c["spaces"]
        spa = None if sp is None else (sp if isinstance(sp, int) else tuple(sp))
        if c["via"] == "Integration":
            op = I.IntegrationOperator(dom, spa)
        else:
            op = I.ContractionOperator(dom, spa, c["power"])
        spl = list(range(len(c["dom"]))) if sp is None else ([sp] if isinstance(sp, int) else sp)
        w = G.weight_array(c["dom"], spl, c["power"])
        axes = tuple(a for i in spl for a in G.axes_of(c["dom"], i))
        return Built(op, lambda x: (x * w).sum(axis=axes), cap=3)
    return configs, build


# ================================================================ distributors
@register("DOFDistributor")
def _dofdist():
    def configs(tier):
        out = []
        # the dofdex lives on a structured Space (it needs pixel volumes)
        for tgt, space, dd in [([R3], 0, [0, 0, 0]), ([R3], 0, [0, 1, 2]), ([R3], 0, [0, 1, 1]), ([R3], 0, [0, 1, 0]),
                               ([R3], 0, [0, 0, 1]), ([R4], 0, [0, 1, 1, 2]),
                               ([R22], 0, [[0, 1], [1, 2]]), ([R23], 0, [[0, 1, 1], [1, 2, 2]]),
                               ([U2, R3], 1, [0, 1, 0]), ([R3, U2], 0, [0, 1, 1]), ([R2, H3, U2], 1, [0, 0, 1]),
                               ([R2, R22], 1, [[0, 1], [1, 0]]), ([GL23, U2], 0, [0, 0, 0, 1, 1, 1]),
                               ([GL23], 0, [0, 1, 0, 1, 2, 2])] + T(tier, [], [
                                   ([R5], 0, [0, 1, 2, 1, 0]), ([U2, R23, U2], 1, [[0, 1, 2], [2, 1, 0]]), ([HP1], 0, [0] * 4 + [1] * 4 + [2] * 4),
                                   ([R4, R3], 0, [0, 0, 1, 1]), ([R4, R3], 1, [1, 0, 1])]):
            out.append(dict(tgt=tgt, space=space, dofdex=dd, how="explicit"))
            if len(tgt) == 1:
                out.append(dict(tgt=tgt, space=None, dofdex=dd, how="default-target"))
        return out

    def build(c, seed):
        I = ift()
        tgt = mkdom(c["tgt"])
        sp = c["space"] if c["space"] is not None else 0
        dd = np.array(c["dofdex"], dtype=np.int64)
        ddf = I.makeField(I.DomainTuple.make(tgt[sp]), dd)
        if c["how"] == "default-target":
            op = I.DOFDistributor(ddf)
        else:
            op = I.DOFDistributor(ddf, tgt, c["space"])
        ax = G.axes_of(c["tgt"], sp)
        full = G.tuple_shape(c["tgt"])

        def ref(x):     # x has the DOF axis (one axis) where the target has the space's axes
            return np.take(x, dd.ravel(), axis=ax[0]).reshape(full)
        nb = int(dd.max()) + 1
        return Built(op, ref, cap=3, dom_shape=full[:ax[0]] + (nb,) + full[ax[-1] + 1:], tgt_shape=full)
    return configs, build


def _pindex(spec, binbounds):
    if spec[0] == "RG":
        k = G.k_lengths(spec[1], spec[2])
    else:
        k = np.array([l for (l, m, p) in G.lm_layout(spec[1], spec[2])], dtype=float)
    if binbounds is None:
        return np.unique(np.round(k, 10), return_inverse=True)[1].reshape(k.shape)
    return np.searchsorted(np.array(binbounds), k)


@register("PowerDistributor")
def _powerdist():
    def configs(tier):
        out = []
        for tgt, space in [([H3], None), ([H4], None), ([H23], None), ([H33], None), ([LM2], None), ([LM21], None),
                           ([U2, H4], 1), ([H3, U2], 0), ([H23, R2], 0), ([U2, H23], 1)] + T(tier, [], [
                               ([["RG", [5], [0.3], True]], None), ([["RG", [4, 4], [0.5, 0.5], True]], None), ([["RG", [3, 4], [0.5, 0.7], True]], None),
                               ([["LM", 3, 3]], None), ([["LM", 3, 1]], None), ([R2, H33, U2], 1), ([["RG", [2, 2, 2], [1., 1., 0.5], True]], None)]):
            out.append(dict(tgt=tgt, space=space, bb=None))
            out.append(dict(tgt=tgt, space=space, bb="explicit"))
        return out

    def _bb(spec):
        # strictly ascending, not on any k length, no empty bins
        if spec[0] == "RG":
            ks = np.unique(np.round(G.k_lengths(spec[1], spec[2]), 10))
        else:
            ks = np.arange(spec[1] + 1.)
        if len(ks) < 3:
            return [0.5 * (ks[0] + ks[1])]
        return [0.5 * (ks[0] + ks[1]), 0.5 * (ks[-2] + ks[-1])]

    def build(c, seed):
        I = ift()
        tgt = mkdom(c["tgt"])
        sp = c["space"] if c["space"] is not None else 0
        spec = c["tgt"][sp]
        bb = None if c["bb"] is None else _bb(spec)
        ps = None if bb is None else I.PowerSpace(tgt[sp], binbounds=tuple(bb))
        op = I.PowerDistributor(tgt, ps, c["space"])
        pin = _pindex(spec, bb)
        ax = G.axes_of(c["tgt"], sp)
        full = G.tuple_shape(c["tgt"])
        nb = int(pin.max()) + 1
        return Built(op, lambda x: np.take(x, pin.ravel(), axis=ax[0]).reshape(full), cap=3,
                     dom_shape=full[:ax[0]] + (nb,) + full[ax[-1] + 1:], tgt_shape=full)
    return configs, build


# ================================================================ inserters
@register("DomainTupleFieldInserter")
def _dtfi():
    def configs(tier):
        out = []
        for tgt in T(tier, [[R3], [U2, R3], [R23, U2], [U2, R23, R2]], [[R3], [U2, R3], [R23, U2], [U2, R23, R2], [U2, U22, U3]]):
            for space in range(len(tgt)):
                shp = G.spec_shape(tgt[space])
                for index in itertools.product(*[range(n) for n in shp]):
                    out.append(dict(tgt=tgt, space=space, index=list(index)))
        return out

    def build(c, seed):
        I = ift()
        tgt = mkdom(c["tgt"])
        op = I.DomainTupleFieldInserter(tgt, c["space"], tuple(c["index"]))
        ax = G.axes_of(c["tgt"], c["space"])
        nshp = G.spec_shape(c["tgt"][c["space"]])
        onehot = np.zeros(nshp)
        onehot[tuple(c["index"])] = 1.

        def ref(x):   # x (*) delta_index, new axes moved to the position of the inserted space
            y = np.multiply.outer(x, onehot)
            return np.moveaxis(y, list(range(x.ndim, x.ndim + len(nshp))), list(ax))
        return Built(op, ref, cap=3)
    return configs, build


@register("ValueInserter")
def _valins():
    def configs(tier):
        out = []
        for tgt in [[R3], [R23], [U2, R2], [U2, R23]]:
            for index in itertools.product(*[range(n) for n in G.tuple_shape(tgt)]):
                out.append(dict(tgt=tgt, index=list(index)))
        return out

    def build(c, seed):
        op = ift().ValueInserter(mkdom(c["tgt"]), c["index"])
        shp = G.tuple_shape(c["tgt"])
        flat = int(np.ravel_multi_index(tuple(c["index"]), shp))

        def ref(x):
            y = np.zeros(int(np.prod(shp)), dtype=x.dtype)
            y[flat] = x.reshape(())
            return y.reshape(shp)
        return Built(op, ref, cap=3)
    return configs, build


# ================================================================ einsum
@register("LinearEinsum")
def _einsum():
    # (operator domain, {key: mf domain}, nifty subscripts, key_order or None, numpy subscripts for the loop reference)
    A = [
        ([U3], {"a": [U2, U3]}, "ij,j->i", None, "ij,j->i"),
        ([U2], {"a": [U2, U3]}, "ij,i->j", None, "ij,i->j"),
        ([U3], {"a": [U3]}, "i,i->i", None, "i,i->i"),
        ([U3], {"a": [U2]}, "i,j->ij", None, "i,j->ij"),
        ([U3], {"a": [U2]}, "i,j->ji", None, "i,j->ji"),
        ([U2, U3], {"a": [U2, U3]}, "ij,ij->", None, "ij,ij->"),
        ([U3], {"a": [U3]}, "i,i->", None, "i,i->"),
        ([U3, U2], {"a": [U2, U3]}, "ij,jk->ik", None, "ij,jk->ik"),
        ([U2, U3], {"a": [U2]}, "i,ij->j", None, "i,ij->j"),
        ([U2, U3], {"a": [U2]}, "i,ij->ij", None, "i,ij->ij"),
        ([U2, U3], {"a": [U2], "b": [U3]}, "i,j,ij->", None, "i,j,ij->"),
        ([U3, U2], {"a": [U2, U3], "b": [U2]}, "ij,k,jk->i", None, "ij,k,jk->i"),
        ([U3, U2], {"a": [U2, U3], "b": [U2]}, "k,ij,jk->i", ["b", "a"], "k,ij,jk->i"),
        ([U2, U2], {"a": [U2]}, "i,ii->i", None, "i,ii->i"),
        ([U3], {"a": [U3, U3]}, "ii,i->i", None, "ii,i->i"),
        ([U2, U3], {"a": [U2]}, "i,ij->ji", None, "i,ij->ji"),
        # spaces with two axes: one nifty letter = two numpy letters
        ([R23], {"a": [R23]}, "i,i->i", None, "ab,ab->ab"),
        ([R23], {"a": [U2, R23]}, "ji,i->j", None, "jab,ab->j"),
        ([R23, U2], {"a": [U2]}, "j,ij->i", None, "j,abj->ab"),
        ([U2, R23], {"a": [R23]}, "i,ji->ij", None, "ab,jab->abj"),
    ]
    A_THOROUGH = [
        ([U2, U3, U2], {"a": [U3]}, "j,ijk->ik", None, "j,ijk->ik"),
        ([U2, U3, U2], {"a": [U2, U2]}, "il,ijk->ljk", None, "il,ijk->ljk"),
        ([U3], {"a": [U2, U3], "b": [U2, U3]}, "ij,ij,j->i", None, "ij,ij,j->i"),
        ([U3], {"a": [U2], "b": [U3], "c": [U2]}, "i,j,k,j->ikj", None, "i,j,k,j->ikj"),
        ([U2, U3], {"a": [U2, U3], "b": [U3]}, "ij,j,ij->ij", ["a", "b"], "ij,j,ij->ij"),
        ([R22, U2], {"a": [R22]}, "i,ij->j", None, "ab,abj->j"),
        ([R22], {"a": [U2, R22], "b": [U2]}, "ji,j,i->i", None, "jab,j,ab->ab"),
        ([U2, U2], {"a": [U2]}, "i,ij->ji", None, "i,ij->ji"),
    ]

    def configs(tier):
        out = []
        for i, (d, mf, ss, ko, nss) in enumerate(A + T(tier, [], A_THOROUGH)):
            for mfc in (False, True):
                out.append(dict(dom=d, mf=mf, ss=ss, key_order=ko, nss=nss, mf_complex=mfc))
        return out

    def build(c, seed):
        I = ift()
        dom = mkdom(c["dom"])
        arrs = {}
        for j, (k, sp) in enumerate(sorted(c["mf"].items())):
            arrs[k] = vals(G.tuple_shape(sp), seed, 3 + j, c["mf_complex"])
        mf = I.MultiField.from_dict({k: fld(mkdom(c["mf"][k]), arrs[k]) for k in arrs})
        ko = None if c["key_order"] is None else tuple(c["key_order"])
        op = I.LinearEinsum(dom, mf, c["ss"], key_order=ko)
        order = ko if ko is not None else tuple(sorted(arrs))
        return Built(op, lambda x: G.loop_einsum(c["nss"], *[arrs[k] for k in order], x), cap=3,
                     tag="mf=%s" % ("complex" if c["mf_complex"] else "real"))
    return configs, build


# ================================================================ zero padding / regridding / slicing
def _pad_axis(x, axis, N, central):
    n = x.shape[axis]
    if N == n:
        return x
    x = np.moveaxis(x, axis, 0)
    if not central:
        z = np.zeros((N - n,) + x.shape[1:], dtype=x.dtype)
        y = np.concatenate([x, z], axis=0)
    else:
        # documented: padding "in the middle" of an FFT-ordered axis; for even n the central
        # (Nyquist) entry is NOT split but kept on both sides
        h = n // 2
        z = np.zeros((N - 2 * h - 1,) + x.shape[1:], dtype=x.dtype)
        y = np.concatenate([x[:h + 1], z, x[n - h:]], axis=0)
    return np.moveaxis(y, 0, axis)


@register("FieldZeroPadder")
def _padder():
    def configs(tier):
        out = []
        one = T(tier, {2: [2, 3, 4], 3: [3, 4, 6], 4: [5], 1: [1, 3]}, {2: [2, 3, 4, 5], 3: [3, 4, 5, 6], 4: [4, 5, 7], 1: [1, 2, 3], 5: [6, 8]})
        for central in (False, True):
            for n, Ns in one.items():
                for N in Ns:
                    out.append(dict(dom=[["RG", [n], [0.5], False]], space=0, new=[N], central=central))
            for N in [[2, 3], [3, 3], [2, 5], [4, 4], [3, 6]]:
                out.append(dict(dom=[R23], space=0, new=N, central=central))
            out.append(dict(dom=[U2, R3], space=1, new=[5], central=central))
            out.append(dict(dom=[R3, U2], space=0, new=[4], central=central))
            out.append(dict(dom=[U2, R23, R2], space=1, new=[3, 4], central=central))
            out.append(dict(dom=[H3], space=0, new=[4], central=central))
            out.append(dict(dom=[R2, R3], space=1, new=[4], central=central))
        return out

    def build(c, seed):
        dom = mkdom(c["dom"])
        op = ift().FieldZeroPadder(dom, tuple(c["new"]), c["space"], c["central"])
        ax = G.axes_of(c["dom"], c["space"])

        def ref(x):
            for a, N in zip(ax, c["new"]):
                x = _pad_axis(x, a, N, c["central"])
            return x
        return Built(op, ref, cap=3, tag="central=%s" % c["central"])
    return configs, build


@register("RegriddingOperator")
def _regrid():
    def configs(tier):
        out = []
        for n, ms in T(tier, {1: [1], 2: [1, 2], 3: [1, 2, 3], 4: [2, 3], 5: [2, 4]},
                       {1: [1], 2: [1, 2], 3: [1, 2, 3], 4: [1, 2, 3, 4], 5: [1, 2, 3, 4, 5], 6: [4, 5]}).items():
            for m in ms:
                out.append(dict(dom=[["RG", [n], [0.5], False]], space=0, new=[m]))
        for new in [[2, 3], [1, 2], [2, 2], [1, 1], [2, 1]]:
            out.append(dict(dom=[R23], space=0, new=new))
        out.append(dict(dom=[U2, R3], space=1, new=[2]))
        out.append(dict(dom=[R3, U2], space=0, new=[2]))
        out.append(dict(dom=[U2, R32, R2], space=1, new=[2, 2]))
        out.append(dict(dom=[R3, R4], space=1, new=[3]))
        return out

    def build(c, seed):
        op = ift().RegriddingOperator(mkdom(c["dom"]), tuple(c["new"]), c["space"])
        ax = G.axes_of(c["dom"], c["space"])

        def interp_axis(x, a, m):
            n = x.shape[a]
            p = np.arange(m) * (n / m)           # new pixel k sits at old pixel coordinate k n/m
            f = lambda v: np.interp(p, np.arange(n), v)
            if np.iscomplexobj(x):
                return np.apply_along_axis(f, a, x.real) + 1j * np.apply_along_axis(f, a, x.imag)
            return np.apply_along_axis(f, a, x)

        def ref(x):
            for a, m in zip(ax, c["new"]):
                x = interp_axis(x, a, m)
            return x
        return Built(op, ref, cap=3)
    return configs, build


@register("SliceOperator")
def _slice():
    def configs(tier):
        out = []
        for center in (False, True):
            for pd in (True, False):
                for n, ms in T(tier, {3: [1, 2, 3], 4: [1, 2, 3], 5: [2]}, {2: [1, 2], 3: [1, 2, 3], 4: [1, 2, 3, 4], 5: [1, 2, 3, 4], 6: [1, 3, 4], 7: [2, 5]}).items():
                    for m in ms:
                        out.append(dict(dom=[["RG", [n], [0.5], False]], new=[m], center=center, pd=pd))
                out.append(dict(dom=[U4], new=[2], center=center, pd=pd))
                out.append(dict(dom=[R23], new=[[2, 2]], center=center, pd=pd))
                out.append(dict(dom=[R23], new=[[1, 3]], center=center, pd=pd))
                out.append(dict(dom=[R23, U4], new=[[1, 2], 3], center=center, pd=pd))
                out.append(dict(dom=[U4, R23], new=[2, [2, 2]], center=center, pd=pd))
                out.append(dict(dom=[U4, R3], new=[4, 2], center=center, pd=pd))
                out.append(dict(dom=[U4, H3], new=[3, 3], center=center, pd=pd))
                # `None` = "copy the shape of the original domain for this axis" (documented)
                out.append(dict(dom=[U4, R3], new=[None, 2], center=center, pd=pd))
                out.append(dict(dom=[U4, R3], new=[2, None], center=center, pd=pd))
                out.append(dict(dom=[R23, U4], new=[None, 2], center=center, pd=pd))
                # a later space whose size equals an earlier *axis* length
                out.append(dict(dom=[R23, U4], new=[[2, 3], 3], center=center, pd=pd))
                out.append(dict(dom=[R23, R5], new=[[2, 2], 3], center=center, pd=pd))
        return out

    def build(c, seed):
        dom = mkdom(c["dom"])
        new = tuple(None if s is None else (tuple(s) if isinstance(s, list) else s) for s in c["new"])
        op = ift().SliceOperator(dom, new, center=c["center"], preserve_dist=c["pd"])
        # reference: per axis, keep m consecutive pixels, starting at 0 or at floor((n-m)/2)
        full = G.tuple_shape(c["dom"])
        want = []
        for i, s in enumerate(c["new"]):
            shp = G.spec_shape(c["dom"][i])
            want += list(shp) if s is None else list(np.atleast_1d(s))
        idx = []
        for n, m in zip(full, want):
            st = (n - m) // 2 if c["center"] else 0
            idx.append(np.arange(st, st + m))

        def ref(x):
            for a, ii in enumerate(idx):
                x = np.take(x, ii, axis=a)
            return x
        return Built(op, ref, cap=3, tgt_shape=tuple(want))
    return configs, build


def _sel_from_json(s, n):
    """JSON selector -> (python object given to SplitOperator, explicit index list for the reference)."""
    if s is None:
        return None, list(range(n)), True
    if isinstance(s, int):
        return s, [s], False
    if isinstance(s, dict):
        if "slice" in s:
            sl = slice(*s["slice"])
            return sl, list(range(n))[sl], True
        if "bool" in s:
            b = np.array(s["bool"], dtype=bool)
            return b, list(np.flatnonzero(b)), True
        if "list" in s:
            return list(s["list"]), list(s["list"]), True
        if "tuple" in s:
            return tuple(s["tuple"]), list(s["tuple"]), True
        if "array" in s:
            return np.array(s["array"]), list(s["array"]), True
    raise ValueError(s)


@register("SplitOperator")
def _split():
    def configs(tier):
        out = []
        S = lambda *a: {"slice": list(a)}
        one = [
            {"a": [S(0, 2, None)], "b": [S(2, 4, None)]},
            {"a": [S(0, 3, None)], "b": [S(1, 4, None)]},                # intersecting
            {"a": [S(None, None, None)], "b": [S(1, 3, None)]},
            {"a": [None], "b": [S(0, 1, None)]},
            {"a": [S(0, 4, 2)], "b": [S(1, 4, 2)]},                     # step dividing the length
            {"a": [S(0, 3, 2)]},                                         # step not dividing the length
            {"a": [S(1, 4, 2)], "b": [S(None, None, 3)]},
            {"a": [{"bool": [True, False, True, True]}], "b": [{"bool": [False, True, False, False]}]},
            {"a": [{"list": [0, 2]}], "b": [{"list": [3, 1, 2]}]},
            {"a": [{"tuple": [3, 0]}], "b": [{"array": [1, 2]}]},
            {"a": [2], "b": [S(0, 2, None)]},
            {"a": [S(None, 2, None)], "b": [S(2, None, None)]},
        ]
        for inter in (True, False):
            for sl in one:
                out.append(dict(dom=[U4], slices=sl, inter=inter))
            two = [
                {"a": [S(0, 2, None), None], "b": [S(2, 4, None), S(0, 2, None)]},
                {"a": [S(0, 2, None)], "b": [None, S(1, 3, None)]},
                {"a": [1, None], "b": [None, 2], "c": [3, 0]},
                {"a": [{"list": [0, 3]}, S(0, 2, None)], "b": [S(1, 3, None), {"list": [2, 0]}]},
                {"a": [{"bool": [True, True, False, False]}, None], "b": [None, {"bool": [False, True, True]}]},
                {"a": [{"list": [0, 3]}, {"list": [2, 0]}]},             # index lists on two axes
                {"a": [{"list": [0, 3]}, 1], "b": [2, {"list": [2, 0]}]},
            ]
            for sl in two:
                out.append(dict(dom=[U4, R3], slices=sl, inter=inter))
        if tier != "quick":
            for sl in one:
                out.append(dict(dom=[R4], slices=sl, inter=True))
        return out

    def build(c, seed):
        full = G.tuple_shape(c["dom"])
        assert len(full) == len(c["dom"])          # 1-d spaces only
        pysl, idx = {}, {}
        for k, sl in c["slices"].items():
            objs, ii = [], []
            for a, s in enumerate(sl):
                o, lst, keep = _sel_from_json(s, full[a])
                objs.append(o)
                ii.append((lst, keep))
            for a in range(len(sl), len(full)):
                ii.append((list(range(full[a])), True))
            pysl[k], idx[k] = tuple(objs), ii
        if not c["inter"]:
            # premise of intersecting_slices=False: the selections must be disjoint
            seen = np.zeros(full, dtype=int)
            for k, ii in idx.items():
                seen[np.ix_(*[lst for lst, _ in ii])] += 1
            if seen.max() > 1:
                return None
        op = ift().SplitOperator(mkdom(c["dom"]), pysl, intersecting_slices=c["inter"])

        def ref(x):    # orthogonal selection per axis; an integer selects and drops the axis
            res = {}
            for k, ii in idx.items():
                y = x
                for a, (lst, keep) in enumerate(ii):
                    y = np.take(y, lst, axis=a)
                res[k] = y.reshape([len(lst) for lst, keep in ii if keep])
            return res
        return Built(op, ref, cap=3)
    return configs, build


# ================================================================ harmonic
def _fft_ref(specs, space, sign_pos2harm=-1):
    spec = specs[space]
    ax = G.axes_of(specs, space)
    vol = float(np.prod(spec[2]))
    if not spec[3]:       # position -> harmonic: sum_x exp(-2 pi i k x / N) f(x) dV
        return lambda x: G.dft_axes(x, ax, -1) * vol
    return lambda x: G.dft_axes(x, ax, +1) * vol    # harmonic -> position: sum_k exp(+2 pi i k x / N) f(k) dV_k


@register("FFTOperator")
def _fft():
    def configs(tier):
        out = []
        for d, s in [([R2], None), ([R3], None), ([R4], None), ([R23], None), ([H3], None), ([H4], None), ([H23], None),
                     ([U2, R3], 1), ([R3, U2], 0), ([R2, R3], 0), ([R2, R3], 1), ([U2, H23], 1), ([R1], None),
                     ([R22, R3], 0)] + T(tier, [], [([R5], None), ([["RG", [3, 4], [0.3, 0.7], False]], None), ([U2, R23, R2], 1),
                                                    ([R2, U2, H4], 2), ([["RG", [2, 2, 3], [0.5, 1., 2.], False]], None),
                                                    ([["RG", [6], [0.1], True]], None), ([R23, R32], 1)]):
            out.append(dict(dom=d, space=s, target="default"))
            out.append(dict(dom=d, space=s, target="explicit"))
        return out

    def build(c, seed):
        I = ift()
        sp = c["space"] if c["space"] is not None else 0
        tgt = None if c["target"] == "default" else mkspace(codomain_spec(c["dom"][sp]))
        op = I.FFTOperator(mkdom(c["dom"]), tgt, c["space"])
        return Built(op, _fft_ref(c["dom"], sp), cap=15)
    return configs, build


def _hartley_ref(specs, space):
    f = _fft_ref(specs, space)
    vol = float(np.prod(specs[space][2]))
    ax = G.axes_of(specs, space)

    def cart(x):      # NIFTy default ("non-canonical") convention: Re F + Im F of the forward DFT
        y = G.dft_axes(x, ax, -1) * vol
        return y.real + y.imag

    def ref(x):       # complex input: real and imaginary parts transformed separately (documented)
        if np.iscomplexobj(x):
            return cart(x.real) + 1j * cart(x.imag)
        return cart(x)
    return ref


@register("HartleyOperator")
def _hartley():
    def configs(tier):
        out = []
        for d, s in [([R2], None), ([R3], None), ([R4], None), ([R23], None), ([H3], None), ([H23], None),
                     ([U2, R3], 1), ([R3, U2], 0), ([R2, R3], 1), ([R1], None), ([R22, R3], 0)] + T(tier, [], [
                         ([R5], None), ([["RG", [3, 4], [0.3, 0.7], False]], None), ([U2, R23, R2], 1), ([R2, U2, H4], 2),
                         ([["RG", [2, 2, 3], [0.5, 1., 2.], False]], None), ([R23, R32], 1)]):
            out.append(dict(dom=d, space=s))
        return out

    def build(c, seed):
        sp = c["space"] if c["space"] is not None else 0
        op = ift().HartleyOperator(mkdom(c["dom"]), None, c["space"])
        return Built(op, _hartley_ref(c["dom"], sp), cap=15)
    return configs, build


def _sht_ref(specs, space, tgtspec):
    lm = specs[space]
    th, ph = G.gl_angles(tgtspec[1], tgtspec[2]) if tgtspec[0] == "GL" else G.hp_angles(tgtspec[1])
    S = G.sht_matrix(lm[1], lm[2], th, ph)
    ax = G.axes_of(specs, space)[0]
    return lambda x: G.apply_along(x, S, ax)


@register("SHTOperator")
def _sht():
    def configs(tier):
        out = []
        for d, s, t in [([LM1], None, None), ([LM2], None, None), ([LM21], None, None), ([LM1], None, GL23), ([LM2], None, GL35),
                        ([LM1], None, HP1), ([LM2], None, HP1), ([LM21], None, HP1), ([U2, LM1], 1, GL23), ([LM1, R2], 0, HP1),
                        ([["LM", 3, 3]], None, ["GL", 4, 7]), ([["LM", 3, 2]], None, ["HP", 2]), ([["LM", 0, 0]], None, GL23)] + T(tier, [], [
                            ([["LM", 4, 4]], None, None), ([["LM", 4, 2]], None, ["GL", 5, 6]), ([["LM", 4, 4]], None, ["HP", 2]),
                            ([["LM", 3, 1]], None, None), ([["LM", 3, 0]], None, ["HP", 1]), ([U2, LM2, R2], 1, None),
                            ([["LM", 5, 5]], None, ["GL", 6, 11]), ([LM2, U2], 0, ["HP", 2])]):
            for cls in ("SHTOperator", "HarmonicTransformOperator"):
                out.append(dict(dom=d, space=s, tgt=t, cls=cls))
        return out

    def build(c, seed):
        I = ift()
        sp = c["space"] if c["space"] is not None else 0
        lm = c["dom"][sp]
        tspec = c["tgt"] if c["tgt"] is not None else ["GL", lm[1] + 1, 2 * lm[2] + 1]   # documented default: GL of sufficient resolution
        tgt = None if c["tgt"] is None else mkspace(c["tgt"])
        op = getattr(I, c["cls"])(mkdom(c["dom"]), tgt, c["space"])
        full = list(G.tuple_shape(c["dom"]))
        a = G.axes_of(c["dom"], sp)[0]
        tshape = tuple(full[:a] + list(G.spec_shape(tspec)) + full[a + 1:])
        return Built(op, _sht_ref(c["dom"], sp, tspec), cap=3, tgt_shape=tshape, tol=1e-9, tag="target=%s" % tspec[0])
    return configs, build


@register("HarmonicTransformOperator")
def _htop():
    def configs(tier):
        return [dict(dom=d, space=s) for d, s in [([H2], None), ([H3], None), ([H4], None), ([H23], None),
                                                  ([U2, H3], 1), ([H3, U2], 0), ([H2, H3], 1)]]

    def build(c, seed):
        sp = c["space"] if c["space"] is not None else 0
        op = ift().HarmonicTransformOperator(mkdom(c["dom"]), None, c["space"])
        return Built(op, _hartley_ref(c["dom"], sp), cap=3)
    return configs, build


@register("HarmonicSmoothingOperator")
def _smooth():
    def configs(tier):
        out = []
        for d, s in [([R3], None), ([R4], None), ([R23], None), ([U2, R3], 1), ([R4, U2], 0), ([R2, R3], 1)]:
            for sigma in T(tier, [0., 0.3, 1.0], [0., 0.1, 0.3, 1.0, 5.0]):
                out.append(dict(dom=d, space=s, sigma=sigma))
        return out

    def build(c, seed):
        sp = c["space"] if c["space"] is not None else 0
        op = ift().HarmonicSmoothingOperator(mkdom(c["dom"]), c["sigma"], c["space"])
        spec = c["dom"][sp]
        ax = G.axes_of(c["dom"], sp)
        full = G.tuple_shape(c["dom"])
        hd = codomain_spec(spec)[2]
        k = G.k_lengths(spec[1], hd)
        ker = np.exp(-2. * np.pi ** 2 * c["sigma"] ** 2 * k ** 2)     # Fourier transform of a unit-area Gaussian of std sigma
        shp = [full[a] if a in ax else 1 for a in range(len(full))]

        def ref(x):
            y = G.dft_axes(G.dft_axes(x, ax, -1) * ker.reshape(shp), ax, +1) / np.prod(spec[1])
            return y if np.iscomplexobj(x) else y.real
        return Built(op, ref, cap=3, cond=float(1. / ker.min()))
    return configs, build


@register("FFTShiftOperator")
def _fftshift():
    def configs(tier):
        out = []
        for d in [[R2], [R3], [R4], [R5], [R23], [R2, R3], [U2, R3], [R32, U2, R4]] + T(tier, [], [[R1], [R44], [H23, R3, R2], [["RG", [2, 3, 2], [1., 1., 1.], False]]]):
            rg = [i for i, s in enumerate(d) if s[0] == "RG"]
            opts = []
            if len(rg) == len(d):
                opts.append(None)
            for r in range(1, len(rg) + 1):
                opts += [list(cmb) for cmb in itertools.combinations(rg, r)]
            opts.append(rg[-1])                      # int
            opts.append([rg[-1] - len(d)])           # negative index
            for sp in opts:
                out.append(dict(dom=d, spaces=sp))
        return out

    def build(c, seed):
        sp = c["spaces"]
        op = ift().FFTShiftOperator(mkdom(c["dom"]), None if sp is None else (sp if isinstance(sp, int) else tuple(sp)))
        n = len(c["dom"])
        spl = list(range(n)) if sp is None else ([sp] if isinstance(sp, int) else sp)
        axes = [a for i in spl for a in G.axes_of(c["dom"], i % n)]

        def ref(x):    # fftshift: the zero-frequency pixel 0 moves to pixel n//2
            for a in axes:
                x = np.roll(x, x.shape[a] // 2, axis=a)
            return x
        return Built(op, ref, cap=15)
    return configs, build


# ================================================================ mask / outer / transpose / squeeze / geometry
@register("MaskOperator")
def _mask():
    def configs(tier):
        out = []
        for d in [[U3], [R23], [U2, R2]]:
            n = int(np.prod(G.tuple_shape(d)))
            for bits in itertools.product([0, 1], repeat=n):
                if n > 4 and tier == "quick" and sum(bits) not in (0, 1, n - 1, n) and bits[0] != bits[-1]:
                    continue
                for fdt in ("bool", "int", "float"):
                    if fdt != "bool" and (n > 3 and sum(bits) != 2):
                        continue
                    out.append(dict(dom=d, flags=list(bits), fdt=fdt))
        return out

    def build(c, seed):
        shp = G.tuple_shape(c["dom"])
        fl = np.array(c["flags"]).reshape(shp)
        fl = fl.astype(dict(bool=bool, int=np.int64, float=np.float64)[c["fdt"]])
        if c["fdt"] == "float":
            fl = fl * 2.5
        op = ift().MaskOperator(fld(mkdom(c["dom"]), fl))
        keep = np.flatnonzero(np.array(c["flags"]) == 0)
        return Built(op, lambda x: x.reshape(-1)[keep], cap=3, tgt_shape=(len(keep),))
    return configs, build


@register("OuterProduct")
def _outer():
    def configs(tier):
        out = []
        for d, f in [([U2], [U3]), ([R2], [R2]), ([R23], [U2]), ([U2], [R23]), ([U2, R2], [U3]), ([U2], [U3, R2]), ([U3], [])] + T(tier, [], [
                ([R23, U2], [R32]), ([], [U3]), ([GL23], [U2, U2]), ([U1], [U1])]):
            for fc in (False, True):
                out.append(dict(dom=d, fdom=f, f_complex=fc))
        return out

    def build(c, seed):
        I = ift()
        fshape = G.tuple_shape(c["fdom"])
        f = vals(fshape, seed, 5, c["f_complex"])
        op = I.OuterProduct(mkdom(c["dom"]), fld(mkdom(c["fdom"]), f))
        nd = len(G.tuple_shape(c["dom"]))
        return Built(op, lambda x: f.reshape(fshape + (1,) * nd) * x, cap=3, tag="field=%s" % ("complex" if c["f_complex"] else "real"))
    return configs, build


@register("TransposeOperator")
def _transpose():
    def configs(tier):
        out = []
        for d in [[U2, U3], [R23, U2], [U2, R3, U4], [R23, U2, R32], [U2, U2], [R2, R23, U3, U2]]:
            if len(d) == 4 and tier == "quick":
                perms = [(1, 0, 3, 2), (3, 2, 1, 0), (1, 2, 3, 0)]
            else:
                perms = list(itertools.permutations(range(len(d))))
            for p in perms:
                out.append(dict(dom=d, perm=list(p)))
        return out

    def build(c, seed):
        op = ift().TransposeOperator(mkdom(c["dom"]), tuple(c["perm"]))
        specs, perm = c["dom"], c["perm"]
        shp = G.tuple_shape(specs)
        oshape = G.tuple_shape([specs[p] for p in perm])

        def ref(x):   # target space j is domain space perm[j]; explicit loop over all pixels
            y = np.zeros(oshape, dtype=x.dtype)
            for idx in np.ndindex(*shp):
                blocks = [tuple(idx[a] for a in G.axes_of(specs, i)) for i in range(len(specs))]
                y[sum((blocks[p] for p in perm), ())] = x[idx]
            return y
        return Built(op, ref, cap=15, tgt_shape=oshape)
    return configs, build


@register("SqueezeOperator")
def _squeeze():
    def configs(tier):
        out = []
        for d in [[U1, U3], [U3, U1], [U1, R23, U1], [R1, U2], [U2, R12], [U12, R3], [R12, U12, U1], [U1, U1], [R12], [R11, U2],
                  [GL23, U1], [U1]]:
            for ag in (False, True):
                out.append(dict(dom=d, aggressive=ag))
        return out

    def build(c, seed):
        specs, ag = c["dom"], c["aggressive"]
        # expected target shape from the documentation
        tshape, removed = [], 0
        for s in specs:
            shp = G.spec_shape(s)
            if shp == (1,):
                removed += 1
            elif ag and s[0] in ("U", "RG"):
                tshape += [n for n in shp if n != 1]
                removed += sum(1 for n in shp if n == 1)
            else:
                tshape += list(shp)
        if removed == 0:
            return None          # documented: RuntimeError "Nothing found to be squeezed"
        op = ift().SqueezeOperator(mkdom(specs), aggressive=ag)
        return Built(op, lambda x: x.reshape(tshape), cap=15, tgt_shape=tuple(tshape))
    return configs, build


@register("GeometryRemover")
def _georem():
    def configs(tier):
        out = []
        for d in [[R3], [R23], [R2, GL23], [U2, R3], [H3, LM1, R2]]:
            for sp in [None] + list(range(len(d))):
                out.append(dict(dom=d, space=sp))
        return out

    def build(c, seed):
        I = ift()
        op = I.GeometryRemover(mkdom(c["dom"]), c["space"])
        exp = [I.UnstructuredDomain(G.spec_shape(s)) if (c["space"] is None or i == c["space"]) else mkspace(s)
               for i, s in enumerate(c["dom"])]
        b = Built(op, lambda x: x, cap=3)
        b.expect_target = I.DomainTuple.make(exp)
        return b
    return configs, build


# ================================================================ adapters
@register("FieldAdapter")
def _fadapt():
    def configs(tier):
        out = []
        for d in [[R3], [R23, U2]]:
            out.append(dict(kind="FieldAdapter-tuple", dom=d, name="a"))
            out.append(dict(kind="FieldAdapter-multi", dom=d, name="a"))
            out.append(dict(kind="FieldAdapter-multi2", dom=d, name="b"))
            out.append(dict(kind="Variable", dom=d, name="k"))
            for left_multi in (False, True):
                for nkeys in (1, 2, 3):
                    for give in ("both", "left", "right"):
                        out.append(dict(kind="ducktape", dom=d, name="b", left_multi=left_multi, nkeys=nkeys, give=give))
        return out

    def build(c, seed):
        I = ift()
        dom = mkdom(c["dom"])
        nm = c["name"]
        other = mkdom([U2])
        k = c["kind"]
        if k == "FieldAdapter-tuple":       # DomainTuple target, domain {name: tgt}
            op = I.FieldAdapter(dom, nm)
            ref, multi_in = (lambda x: x[nm]), True
        elif k == "FieldAdapter-multi":     # MultiDomain given: everything except `name` stripped
            op = I.FieldAdapter(I.MultiDomain.make({nm: dom}), nm)
            ref, multi_in = (lambda x: {nm: x}), False
        elif k == "FieldAdapter-multi2":
            op = I.FieldAdapter(I.MultiDomain.make({"a": other, nm: dom, "c": other}), nm)
            ref, multi_in = (lambda x: {nm: x}), False
        elif k == "Variable":
            op = I.Variable(dom, nm)
            ref, multi_in = (lambda x: x[nm]), True
        else:
            keys = ["b", "a", "c"][:c["nkeys"]]
            md = I.MultiDomain.make({kk: (dom if kk == nm else other) for kk in keys})
            if c["give"] != "both" and c["nkeys"] > 1 and False:
                return None
            if c["left_multi"]:           # target is the MultiDomain: insert (zeros elsewhere)
                left, right = md, dom
                if c["give"] == "left":
                    right = None
                elif c["give"] == "right":
                    if c["nkeys"] > 1:
                        return None       # cannot infer a multi-key left from right
                    left = None
                op = I.ducktape(left, right, nm)
                shapes = {kk: (G.tuple_shape(c["dom"]) if kk == nm else (2,)) for kk in keys}
                ref = lambda x: {kk: (x if kk == nm else np.zeros(shapes[kk])) for kk in keys}
            else:                         # domain is the MultiDomain: extract
                left, right = dom, md
                if c["give"] == "right":
                    left = None
                elif c["give"] == "left":
                    if c["nkeys"] > 1:
                        return None
                    right = None
                op = I.ducktape(left, right, nm)
                ref = lambda x: x[nm]
        return Built(op, ref, cap=3)
    return configs, build


@register("PrependKey")
def _prepend():
    def configs(tier):
        return [dict(md=md, pre=pre) for md in [{"a": [R3]}, {"a": [R2], "b": [U3]}, {"b": [R23], "a": [U2], "c": [U1]}]
                for pre in ["x", "", "z_"]]

    def build(c, seed):
        op = ift().PrependKey(mkmdom(c["md"]), c["pre"])
        return Built(op, lambda x: {c["pre"] + k: v for k, v in x.items()}, cap=3)
    return configs, build


@register("PartialExtractor")
def _pextract():
    def configs(tier):
        out = []
        md = {"a": [R2], "b": [U3], "c": [R23]}
        for r in range(1, 4):
            for keys in itertools.combinations(sorted(md), r):
                out.append(dict(md=md, keys=list(keys)))
        out.append(dict(md={"a": [R2]}, keys=["a"]))
        return out

    def build(c, seed):
        I = ift()
        dom = mkmdom(c["md"])
        tgt = I.MultiDomain.make({k: dom[k] for k in c["keys"]})
        op = I.PartialExtractor(dom, tgt)
        return Built(op, lambda x: {k: x[k] for k in c["keys"]}, cap=3)
    return configs, build


@register("DomainChangerAndReshaper")
def _dcr():
    def configs(tier):
        return [dict(dom=d, tgt=t) for d, t in [([R23], [U2, U3]), ([R23], [["U", [6]]]), ([U2, R3], [R32]), ([R23, U2], [U4, R3]),
                                                ([R3], [H3]), ([GL23], [R23]), ([U1, R3], [R3]), ([R22, U3], [U2, ["RG", [2, 3], [1., 1.], False]])]]

    def build(c, seed):
        op = ift().DomainChangerAndReshaper(mkdom(c["dom"]), mkdom(c["tgt"]))
        ts = G.tuple_shape(c["tgt"])
        return Built(op, lambda x: x.reshape(-1).reshape(ts), cap=3)
    return configs, build


@register("ExtractAtIndices")
def _eai():
    def configs(tier):
        out = []
        for d, sp, inds in [([U4], 0, [[0, 2]]), ([U4], 0, [[3, 3, 1]]), ([U4], 0, [[2]]), ([U4], 0, [[0, 1, 2, 3, 0]]),
                            ([R23], 0, [[0, 1, 1, 0], [2, 1, 1, 0]]), ([R23], 0, [[1], [2]]),
                            ([U2, R3], 1, [[2, 0]]), ([R3, U2], 0, [[1, 1]]), ([U2, R23, R2], 1, [[0, 1, 1], [1, 2, 1]]),
                            ([U2, R3], 0, [[1, 0, 1]])]:
            out.append(dict(dom=d, space=sp, inds=inds))
        return out

    def build(c, seed):
        op = ift().ExtractAtIndices(mkdom(c["dom"]), tuple(tuple(i) for i in c["inds"]), c["space"])
        specs, sp = c["dom"], c["space"]
        ax = G.axes_of(specs, sp)
        shp = G.spec_shape(specs[sp])
        flat = np.ravel_multi_index(tuple(np.array(i) for i in c["inds"]), shp)

        def ref(x):    # pixel list along the space, taken from the space flattened to one axis
            full = x.shape
            y = x.reshape(full[:ax[0]] + (-1,) + full[ax[-1] + 1:])
            return np.take(y, flat, axis=ax[0])
        return Built(op, ref, cap=3)
    return configs, build


@register("Multifield2Vector")
def _mf2v():
    def configs(tier):
        return [dict(md=md) for md in [{"a": [R3]}, {"a": [R2], "b": [U3]}, {"b": [R23], "a": [U2], "c": [U1]},
                                       {"z": [U2], "y": [R23, U2]}]]

    def build(c, seed):
        op = ift().Multifield2Vector(mkmdom(c["md"]))
        return Built(op, lambda x: np.concatenate([x[k].reshape(-1) for k in sorted(x)]), cap=3)
    return configs, build


# ================================================================ conj / real / imag / vdot / weights
@register("ConjugationOperator")
def _conj():
    def configs(tier):
        return [dict(dom=d) for d in [[R3], [R23, U2]]]

    def build(c, seed):
        return Built(ift().ConjugationOperator(mkdom(c["dom"])), np.conj, cap=15, linear="real")
    return configs, build


@register("Realizer")
def _real():
    def configs(tier):
        return [dict(dom=d, multi=m) for d in [[R3], [R23, U2]] for m in (False, True)]

    def build(c, seed):
        I = ift()
        if c["multi"]:
            op = I.Realizer(I.MultiDomain.make({"a": mkdom(c["dom"]), "b": mkdom([U2])}))
            ref = lambda x: {k: np.real(v) for k, v in x.items()}
        else:
            op = I.Realizer(mkdom(c["dom"]))
            ref = np.real
        return Built(op, ref, cap=3, linear="real")
    return configs, build


@register("Imaginizer")
def _imag():
    def configs(tier):
        return [dict(dom=d, multi=m) for d in [[R3], [R23, U2]] for m in (False, True)]

    def build(c, seed):
        I = ift()
        if c["multi"]:
            op = I.Imaginizer(I.MultiDomain.make({"a": mkdom(c["dom"]), "b": mkdom([U2])}))
            ref = lambda x: {k: np.imag(v) for k, v in x.items()}
        else:
            op = I.Imaginizer(mkdom(c["dom"]))
            ref = np.imag
        return Built(op, ref, cap=3, linear="real",
                     rejects={("TIMES", "f8"): "Imaginizer raises ValueError for real input (explicit in code)"})
    return configs, build


@register("VdotOperator")
def _vdot():
    def configs(tier):
        return [dict(dom=d, fc=fc, multi=m) for d in [[R3], [R23], [U2, R2]] for fc in (False, True) for m in (False, True)]

    def build(c, seed):
        I = ift()
        shp = G.tuple_shape(c["dom"])
        f = vals(shp, seed, 7, c["fc"])
        if c["multi"]:
            g = vals((2,), seed, 8, c["fc"])
            fl = I.MultiField.from_dict({"a": fld(mkdom(c["dom"]), f), "b": fld(mkdom([U2]), g)})
            ref = lambda x: np.sum(np.conj(f) * x["a"]) + np.sum(np.conj(g) * x["b"])
        else:
            fl = fld(mkdom(c["dom"]), f)
            ref = lambda x: np.sum(np.conj(f) * x)
        return Built(I.VdotOperator(fl), ref, cap=3, tag="field=%s" % ("complex" if c["fc"] else "real"))
    return configs, build


@register("WeightApplier")
def _wapp():
    def configs(tier):
        out = []
        for d in [[R3], [R23], [R2, GL23], [U2, R3], [HP1, R2]]:
            for sp in [None] + subsets(len(d)):
                if any(d[i][0] == "U" for i in (range(len(d)) if sp is None else sp)):
                    continue       # no volume on unstructured domains
                for p in T(tier, [1, -1, 2], [0, 1, -1, 2, -2]):
                    out.append(dict(dom=d, spaces=sp, power=p))
        return out

    def build(c, seed):
        from nifty.cl.operators.simple_linear_operators import WeightApplier
        sp = c["spaces"]
        op = WeightApplier(mkdom(c["dom"]), None if sp is None else tuple(sp), c["power"])
        w = G.weight_array(c["dom"], list(range(len(c["dom"]))) if sp is None else sp, c["power"])
        return Built(op, lambda x: x * w, cap=15)
    return configs, build


# ================================================================ interpolation / LOS
def _hat(t):
    return np.maximum(0., 1. - np.abs(t))


@register("LinearInterpolator")
def _interp():
    PTS1 = [0., 0.25, 0.5, 0.7, 1.0, 1.49, -0.2, 1.6, 3.05]
    def configs(tier):
        out = []
        for d in [[R1], [R2], [R3], [R4]]:
            out.append(dict(dom=d, pts=[PTS1]))
            out.append(dict(dom=d, pts=[[0.6]]))
        g = [[x, y] for x in (0., 0.3, 0.5, 1.2, -0.1) for y in (0., 1.0, 2.5, 4.1, 6.3)]
        out.append(dict(dom=[R23], pts=[[p[0] for p in g], [p[1] for p in g]]))
        out.append(dict(dom=[R2, R3], pts=[[p[0] for p in g], [p[1] / 4 for p in g]]))
        out.append(dict(dom=[R22], pts=[[0.1, 0.5, 0.9], [0.05, 0.25, 0.6]]))
        out.append(dict(dom=[R2, R3, R2], pts=[[0.1, 0.6], [0.7, 1.3], [0.9, 0.2]]))
        if tier != "quick":
            g = [[x, y] for x in (-0.6, 0., 0.2, 0.5, 0.75, 1.0, 1.3) for y in (-2.5, 0., 0.5, 2.0, 3.9, 4.0, 7.7)]
            out.append(dict(dom=[R23], pts=[[p[0] for p in g], [p[1] for p in g]]))
            out.append(dict(dom=[R32], pts=[[p[0] for p in g], [p[1] / 3 for p in g]]))
            out.append(dict(dom=[["RG", [2, 2, 2], [0.5, 1., 2.], False]], pts=[[0.1, 0.6, 0.9, 0.], [0.7, 1.3, 0.2, 1.], [0.9, 0.2, 3.1, 2.]]))
            out.append(dict(dom=[R5], pts=[[k * 0.13 - 0.5 for k in range(30)]]))
        return out

    def build(c, seed):
        pts = np.array(c["pts"], dtype=float)
        op = ift().LinearInterpolator(mkdom(c["dom"]), pts)
        shp = G.tuple_shape(c["dom"])
        dist = [dd for s in c["dom"] for dd in s[2]]
        # multilinear interpolation on a torus = tensor product of periodic hat functions
        W = np.ones((pts.shape[1],) + shp)
        for a, (n, dd) in enumerate(zip(shp, dist)):
            t = pts[a][:, None] / dd - np.arange(n)[None, :]
            h = sum(_hat(t + k * n) for k in range(-12, 13))
            W = W * h.reshape((pts.shape[1],) + tuple(n if b == a else 1 for b in range(len(shp))))
        W = W.reshape(pts.shape[1], -1)
        return Built(op, lambda x: W @ x.reshape(-1), cap=3)
    return configs, build


def _along_boundary(a, b, dist):
    """segment a->b runs inside a cell-boundary hyperplane (measure-zero ambiguity: outside the premise)."""
    for x, y, d in zip(a, b, dist):
        t = x / d + 0.5
        if x == y and abs(t - round(t)) < 1e-9:
            return True
    return False


@register("LOSResponse")
def _los():
    def configs(tier):
        out = []
        # 1-d, d = 0.5, 3 pixels: box = [-0.25, 1.25]
        P1 = [-0.5, -0.25, 0., 0.1, 0.25, 0.6, 1.0, 1.25, 1.7]
        s1 = [[a] for a in P1 for b in P1 if a != b]
        e1 = [[b] for a in P1 for b in P1 if a != b]
        ok_ = lambda a, b, d: a != b and not _along_boundary(a, b, d)
        out.append(dict(dom=[R3], starts=[[p[0] for p in s1]], ends=[[p[0] for p in e1]], sig=None))
        # 2-d (2,3), d = (0.5, 2): box = [-0.25, 0.75] x [-1, 5]
        P2 = [[-0.4, -1.5], [0.0, 0.0], [0.1, 0.3], [0.25, 1.0], [0.5, 4.0], [0.6, 2.2], [0.9, 5.5], [0.3, -1.0], [0.0, 4.0]]
        pairs = [(a, b) for a in P2 for b in P2 if ok_(a, b, R23[2])]
        out.append(dict(dom=[R23], starts=[[p[0][0] for p in pairs], [p[0][1] for p in pairs]],
                        ends=[[p[1][0] for p in pairs], [p[1][1] for p in pairs]], sig=None))
        # isotropic 2-d grid, diagonals through pixel corners and along grid lines
        R33 = ["RG", [3, 3], [1., 1.], False]
        P3 = [[-0.5, -0.5], [2.5, 2.5], [0., 0.], [2., 2.], [0.5, 0.5], [0.5, 2.5], [-1., 1.], [3., 1.], [1., 1.], [0.2, 1.7]]
        pairs = [(a, b) for a in P3 for b in P3 if ok_(a, b, [1., 1.])]
        out.append(dict(dom=[R33], starts=[[p[0][0] for p in pairs], [p[0][1] for p in pairs]],
                        ends=[[p[1][0] for p in pairs], [p[1][1] for p in pairs]], sig=None))
        # 3-d
        R222 = ["RG", [2, 2, 2], [1., 0.5, 2.], False]
        P4 = [[0., 0., 0.], [1., 0.5, 2.], [0.3, 0.1, 1.9], [-1., 0.2, 0.5], [1.2, 0.7, -0.5], [0.5, 0.25, 1.]]
        pairs = [(a, b) for a in P4 for b in P4 if ok_(a, b, [1., 0.5, 2.])]
        out.append(dict(dom=[R222], starts=[[p[0][k] for p in pairs] for k in range(3)],
                        ends=[[p[1][k] for p in pairs] for k in range(3)], sig=None))
        if tier != "quick":
            P5 = [[x, y] for x in (-0.5, 0., 0.5, 1.2, 2., 2.5, 3.3) for y in (-0.7, 0.5, 1., 1.5, 2.5)]
            pairs = [(a, b) for a in P5 for b in P5 if ok_(a, b, [1., 1.])]
            for lo in range(0, len(pairs), 200):
                pp = pairs[lo:lo + 200]
                out.append(dict(dom=[R33], starts=[[p[0][0] for p in pp], [p[0][1] for p in pp]],
                                ends=[[p[1][0] for p in pp], [p[1][1] for p in pp]], sig=None))
        # parallax errors: no independent closed form -> consistency checks only
        out.append(dict(dom=[R23], starts=[[0.0, 0.1], [0.0, 0.3]], ends=[[0.6, 0.5], [2.2, 4.0]], sig=[0.1, 0.05]))
        return out

    def build(c, seed):
        st, en = np.array(c["starts"], dtype=float), np.array(c["ends"], dtype=float)
        sig = None if c["sig"] is None else np.array(c["sig"])
        op = ift().LOSResponse(mkdom(c["dom"]), st, en, sigmas=sig)
        spec = c["dom"][0]
        if sig is not None:
            return Built(op, None, cap=3, note="sigmas: consistency only")
        W = np.array([G.segment_cell_lengths(st[:, i], en[:, i], tuple(spec[1]), spec[2]).reshape(-1)
                      for i in range(st.shape[1])])
        # weights are stored in float32 and every segment is shortened by 1e-7 (relative) at both ends
        return Built(op, lambda x: W @ x.reshape(-1), cap=3, tol=3e-6, adj_tol=1e-10)
    return configs, build


# ================================================================ non-uniform FFTs (ducc)
@register("Nufft")
def _nufft():
    def configs(tier):
        out = []
        p1 = [[0.], [0.3], [1.7], [-0.6], [2.0]]
        out.append(dict(tgt=[R4], pos=p1))
        out.append(dict(tgt=[R3], pos=p1))
        out.append(dict(tgt=[R5], pos=p1[:2]))
        p2 = [[0., 0.], [0.3, 1.1], [-0.7, 0.2], [1.5, -2.0]]
        out.append(dict(tgt=[R23], pos=p2))
        out.append(dict(tgt=[R44], pos=p2))
        out.append(dict(tgt=[["RG", [2, 3, 2], [0.5, 1., 0.25], False]], pos=[[0.1, 0.2, 0.3], [1., -1., 0.5]]))
        return out

    def build(c, seed):
        pos = np.array(c["pos"], dtype=float)
        op = ift().Nufft(mkdom(c["tgt"]), pos)
        spec = c["tgt"][0]
        shp = tuple(spec[1])
        # grid(k) = Re sum_j x_j exp(+2 pi i sum_a (k_a - n_a//2) d_a pos_ja)
        ks = np.meshgrid(*[np.arange(n) - n // 2 for n in shp], indexing="ij")
        ph = sum(np.multiply.outer(pos[:, a] * spec[2][a], ks[a]) for a in range(len(shp)))
        E = np.exp(2j * np.pi * ph)                          # (npoints,) + shp

        def ref(x):
            return np.real(np.tensordot(x, E, axes=([0], [0])))
        return Built(op, ref, cap=3, tol=1e-8, linear="real",
                     rejects={("TIMES", "f8"): "Nufft needs complex points (ducc rejects real input)"})
    return configs, build


@register("Gridder")
def _gridder():
    def configs(tier):
        uv = [[0., 0.], [0.3, 1.1], [-0.7, 0.2], [1.5, -2.0]]
        return [dict(tgt=[R24], uv=uv), dict(tgt=[R44], uv=uv), dict(tgt=[R22], uv=uv[:2])]

    def build(c, seed):
        uv = np.array(c["uv"], dtype=float)
        op = ift().Gridder(mkdom(c["tgt"]), uv)
        spec = c["tgt"][0]
        nx, ny = spec[1]
        lx = (np.arange(nx) - nx // 2) * spec[2][0]
        ly = (np.arange(ny) - ny // 2) * spec[2][1]
        # dirty(l, m) = Re sum_j vis_j exp(+2 pi i (u_j l + v_j m))     (w = 0, unit wavelength)
        E = np.exp(2j * np.pi * (np.multiply.outer(uv[:, 0], lx)[:, :, None] + np.multiply.outer(uv[:, 1], ly)[:, None, :]))
        return Built(op, lambda x: np.real(np.tensordot(x, E, axes=([0], [0]))), cap=3, tol=1e-8, linear="real",
                     rejects={("TIMES", "f8"): "Gridder needs complex visibilities (ducc rejects real input)"})
    return configs, build


# ================================================================ matrix product
@register("MatrixProductOperator")
def _matprod():
    def configs(tier):
        out = []
        for mc in (False, True):
            out.append(dict(dom=[U3], spaces=None, flatten=False, mc=mc, sparse=False))
            out.append(dict(dom=[U3], spaces=[0], flatten=False, mc=mc, sparse=False))
            out.append(dict(dom=[U3], spaces=None, flatten=False, mc=mc, sparse=True))
            out.append(dict(dom=[R23], spaces=None, flatten=False, mc=mc, sparse=False))
            out.append(dict(dom=[R23], spaces=None, flatten=True, mc=mc, sparse=False))
            out.append(dict(dom=[R23], spaces=None, flatten=True, mc=mc, sparse=True))
            out.append(dict(dom=[U2, U3], spaces=None, flatten=False, mc=mc, sparse=False))
            out.append(dict(dom=[U2, U3], spaces=None, flatten=True, mc=mc, sparse=True))
            for sp in ([0], [1], [0, 1], [1, 0]):
                out.append(dict(dom=[U2, U3], spaces=sp, flatten=False, mc=mc, sparse=False))
            for sp in ([0], [1], [2], [0, 1], [1, 2], [0, 2], [0, 1, 2]):
                out.append(dict(dom=[U2, R3, U2], spaces=sp, flatten=False, mc=mc, sparse=False))
            for sp in ([0], [1]):
                out.append(dict(dom=[R23, U2], spaces=sp, flatten=False, mc=mc, sparse=False))
            if tier != "quick":
                for sp in ([0], [1], [2], [0, 1], [1, 2], [0, 2], [2, 0], [0, 1, 2]):
                    out.append(dict(dom=[R2, R23, U2], spaces=sp, flatten=False, mc=mc, sparse=False))
                out.append(dict(dom=[U2, R3, U2], spaces=None, flatten=True, mc=mc, sparse=False))
            # documented: "spaces: int or tuple of int"
            out.append(dict(dom=[U2, U3], spaces=1, flatten=False, mc=mc, sparse=False))
        return out

    def build(c, seed):
        specs = c["dom"]
        full = G.tuple_shape(specs)
        sp = c["spaces"]
        spl = list(range(len(specs))) if sp is None else ([sp] if isinstance(sp, int) else sp)
        act = [a for i in spl for a in G.axes_of(specs, i)]
        ashape = tuple(full[a] for a in act)
        n = int(np.prod(ashape))
        M2 = vals((n, n), seed, 11, c["mc"])                     # the matrix on the flattened active axes
        if c["flatten"]:
            M = M2
        else:
            M = M2.reshape(ashape + ashape)
        if c["sparse"]:
            import scipy.sparse
            M = scipy.sparse.csr_matrix(M2)
        op = ift().MatrixProductOperator(mkdom(specs), M, spaces=None if sp is None else (sp if isinstance(sp, int) else tuple(sp)),
                                         flatten=c["flatten"])

        def ref(x):   # y[.., i_act, ..] = sum_j M[i_act, j_act] x[.., j_act, ..]; other axes untouched
            xm = np.moveaxis(x, act, list(range(len(act))))
            rest = xm.shape[len(act):]
            y = (M2 @ xm.reshape(n, -1)).reshape(ashape + rest)
            return np.moveaxis(y, list(range(len(act))), act)
        return Built(op, ref, cap=3, tag="spaces=%s,flatten=%s,sparse=%s,matrix=%s" % (
            "None" if sp is None else ("int" if isinstance(sp, int) else ("sorted" if list(sp) == sorted(sp) else "unsorted")),
            c["flatten"], c["sparse"], "complex" if c["mc"] else "real"))
    return configs, build


# ================================================================ partial conjugate
@register("PartialConjugate")
def _pconj():
    def configs(tier):
        md = {"a": [R2], "b": [U3], "c": [R23]}
        out = []
        for r in range(0, 4):
            for keys in itertools.combinations(sorted(md), r):
                out.append(dict(md=md, keys=list(keys)))
        return out

    def build(c, seed):
        from nifty.cl.operators.partial_conjugate import PartialConjugate
        op = PartialConjugate(mkmdom(c["md"]), list(c["keys"]))
        return Built(op, lambda x: {k: (np.conj(v) if k in c["keys"] else v) for k, v in x.items()}, cap=15, linear="real")
    return configs, build


# ================================================================ endomorphic basics
@register("ScalingOperator")
def _scaling():
    def configs(tier):
        out = []
        for d in ([R3], [R23, U2], "multi"):
            for f in ([1.0, 0.0], [-1.0, 0.0], [2.5, 0.0], [0.5, -1.5], [0.0, 1.0]):
                out.append(dict(dom=d, fac=f))
        return out

    def build(c, seed):
        I = ift()
        dom = mkmdom({"a": [R2], "b": [U3]}) if c["dom"] == "multi" else mkdom(c["dom"])
        f = complex(*c["fac"]) if c["fac"][1] != 0 else c["fac"][0]
        op = I.ScalingOperator(dom, f)
        if c["dom"] == "multi":
            ref = lambda x: {k: f * v for k, v in x.items()}
        else:
            ref = lambda x: f * x
        return Built(op, ref, cap=15)
    return configs, build


@register("DiagonalOperator")
def _diag():
    def configs(tier):
        out = []
        for dc in (False, True):
            for view in ("plain", "adjoint", "inverse", "adjoint-inverse"):
                out.append(dict(dom=[R3], ddom=[R3], spaces=None, dc=dc, view=view))
                out.append(dict(dom=[R23, U2], ddom=[R23, U2], spaces=None, dc=dc, view=view))
                for sp, dd in (([0], [U2]), ([1], [R23]), ([2], [R3]), ([0, 2], [U2, R3]), ([0, 1, 2], [U2, R23, R3]), (1, [R23])):
                    out.append(dict(dom=[U2, R23, R3], ddom=dd, spaces=sp, dc=dc, view=view))
        return out

    def build(c, seed):
        I = ift()
        dshape = G.tuple_shape(c["ddom"])
        d = vals(dshape, seed, 13, c["dc"])
        sp = c["spaces"]
        if sp is None:
            op = I.DiagonalOperator(fld(mkdom(c["ddom"]), d))
        else:
            op = I.DiagonalOperator(fld(mkdom(c["ddom"]), d), mkdom(c["dom"]), sp if isinstance(sp, int) else tuple(sp))
        full = G.tuple_shape(c["dom"])
        spl = list(range(len(c["dom"]))) if sp is None else ([sp] if isinstance(sp, int) else sp)
        act = [a for i in spl for a in G.axes_of(c["dom"], i)]
        dd = d.reshape([full[a] if a in act else 1 for a in range(len(full))])
        v = c["view"]
        if v == "adjoint":
            op, dd = op.adjoint, np.conj(dd)
        elif v == "inverse":
            op, dd = op.inverse, 1. / dd
        elif v == "adjoint-inverse":
            op, dd = op.adjoint.inverse, 1. / np.conj(dd)
        return Built(op, lambda x: dd * x, cap=15, tag="view=%s,diag=%s" % (v, "complex" if c["dc"] else "real"))
    return configs, build


@register("NullOperator")
def _null():
    def configs(tier):
        return [dict(dom=d, tgt=t) for d, t in [([R3], [U2]), ([R3], [R3]), ("multi", [U2]), ([U2], "multi"), ("multi", "multi")]]

    def build(c, seed):
        I = ift()
        md = {"a": [R2], "b": [U3]}
        dom = mkmdom(md) if c["dom"] == "multi" else mkdom(c["dom"])
        tgt = mkmdom(md) if c["tgt"] == "multi" else mkdom(c["tgt"])
        op = I.NullOperator(dom, tgt)
        if c["tgt"] == "multi":
            ref = lambda x: {k: np.zeros(G.tuple_shape(v)) for k, v in md.items()}
        else:
            ref = lambda x: np.zeros(G.tuple_shape(c["tgt"]))
        return Built(op, ref, cap=3, note="zero")
    return configs, build


@register("BlockDiagonalOperator")
def _blockdiag():
    def configs(tier):
        out = []
        for present in subsets(3, nonempty=False):
            for dc in (False, True):
                out.append(dict(present=present, dc=dc))
        return out

    def build(c, seed):
        I = ift()
        md = {"a": [R2], "b": [U3], "c": [R3]}
        dom = mkmdom(md)
        keys = sorted(md)
        ops, diag = {}, {}
        for i in c["present"]:
            k = keys[i]
            if k == "c":      # a non-diagonal block with all four modes: FFT o FFT is not endomorphic -> use FFTShift
                ops[k] = I.FFTShiftOperator(mkdom(md[k]))
                diag[k] = "shift"
            else:
                diag[k] = vals(G.tuple_shape(md[k]), seed, 17 + i, c["dc"])
                ops[k] = I.DiagonalOperator(fld(mkdom(md[k]), diag[k]))
        op = I.BlockDiagonalOperator(dom, ops)

        def ref(x):     # missing entries are unity operators (documented)
            res = {}
            for k in keys:
                if k not in diag:
                    res[k] = x[k]
                elif isinstance(diag[k], str):
                    res[k] = np.roll(x[k], x[k].shape[0] // 2)
                else:
                    res[k] = diag[k] * x[k]
            return res
        return Built(op, ref, cap=15)
    return configs, build


# ================================================================ sandwich / convolution / inversion enabler
@register("SandwichOperator")
def _sandwich():
    def configs(tier):
        out = []
        for bun in ("fft", "contraction", "diag-complex", "scaling-complex", "scaling-unit", "mask", "einsum-complex"):  # same alphabet in both tiers
            for cheese in ("none", "diag", "diag-complex", "sandwich"):
                out.append(dict(bun=bun, cheese=cheese))
        return out

    def build(c, seed):
        I = ift()
        b = c["bun"]
        # bun: operator + its dense complex matrix B (from the *reference* definitions above)
        if b == "fft":
            bun = I.FFTOperator(mkdom([R3]))
            B = G.dft_matrix(3, -1) * 0.5
        elif b == "contraction":
            bun = I.ContractionOperator(mkdom([U2, R3]), 0)
            B = np.kron(np.ones((1, 2)), np.eye(3))
        elif b == "diag-complex":
            dv = vals((3,), seed, 19, True)
            bun = I.DiagonalOperator(fld(mkdom([R3]), dv))
            B = np.diag(dv)
        elif b == "scaling-complex":
            bun = I.ScalingOperator(mkdom([R3]), 0.5 - 1.5j)
            B = (0.5 - 1.5j) * np.eye(3)
        elif b == "scaling-unit":
            bun = I.ScalingOperator(mkdom([R3]), 1j)
            B = 1j * np.eye(3)
        elif b == "mask":
            bun = I.MaskOperator(fld(mkdom([U4]), np.array([0, 1, 0, 0])))
            B = np.eye(4)[[0, 2, 3]]
        else:
            mv = vals((3, 2), seed, 23, True)
            bun = I.LinearEinsum(mkdom([U2]), I.MultiField.from_dict({"a": fld(mkdom([U3, U2]), mv)}), "ij,j->i")
            B = mv
        m = B.shape[0]
        ch = c["cheese"]
        tdom = bun.target
        if ch == "none":
            cheese, C = None, np.eye(m)
        elif ch == "diag":
            cv = vals((m,), seed, 29, False, positive=True)
            cheese, C = I.DiagonalOperator(I.makeField(tdom, cv.reshape(tdom.shape))), np.diag(cv)
        elif ch == "diag-complex":
            cv = vals((m,), seed, 31, True)
            cheese, C = I.DiagonalOperator(I.makeField(tdom, cv.reshape(tdom.shape))), np.diag(cv)
        else:   # a sandwich as cheese is merged (bun' = old bun @ bun)
            cv = vals((m,), seed, 37, True)
            inner = I.DiagonalOperator(I.makeField(tdom, cv.reshape(tdom.shape)))
            cheese = I.SandwichOperator.make(inner, None)
            C = np.diag(np.abs(cv) ** 2)
        op = I.SandwichOperator.make(bun, cheese)
        Mx = B.conj().T @ C @ B
        shp = op.domain.shape
        return Built(op, lambda x: (Mx @ x.reshape(-1)).reshape(shp), cap=3, tag="bun=%s,cheese=%s" % (b, ch))
    return configs, build


@register("FuncConvolutionOperator")
def _funcconv():
    def configs(tier):
        out = []
        for d, s in [([R4], None), ([R5], None), ([R23], None), ([U2, R4], 1), ([R3, U2], 0)]:
            for w in (0.3, 1.0):
                out.append(dict(dom=d, space=s, width=w))
        for d, s in [([GL23], None), ([HP1], None), ([U2, GL23], 1)]:
            out.append(dict(dom=d, space=s, width=0.8))
        return out

    def build(c, seed):
        w = c["width"]
        func = lambda r: np.exp(-0.5 * (np.asarray(r) / w) ** 2) + 0.1
        op = ift().FuncConvolutionOperator(mkdom(c["dom"]), func, c["space"])
        sp = c["space"] if c["space"] is not None else 0
        spec = c["dom"][sp]
        if spec[0] != "RG":
            return Built(op, None, cap=3, note="sphere: consistency only", tag="space=%s" % spec[0])
        # y_i = sum_j K(|i - j|_periodic) x_j / sum_j K(|j|_periodic): kernel normalised to unit integral
        ker = func(G.k_lengths(spec[1], spec[2]))
        ker = ker / ker.sum()
        ax = G.axes_of(c["dom"], sp)
        full = G.tuple_shape(c["dom"])

        def ref(x):
            y = np.zeros(full, dtype=np.result_type(x, np.float64))
            for shift in np.ndindex(*spec[1]):
                y = y + ker[shift] * np.roll(x, shift, axis=ax)
            return y
        return Built(op, ref, cap=3, tag="space=RG")
    return configs, build


@register("InversionEnabler")
def _invenable():
    def configs(tier):
        return [dict(kind=k, approx=a) for k in ("sandwich+1", "diag") for a in (False, True)]

    def build(c, seed):
        I = ift()
        dom = mkdom([R3])
        if c["kind"] == "diag":
            dv = vals((3,), seed, 41, False, positive=True)
            A = I.DiagonalOperator(fld(dom, dv))
            Mx = np.diag(dv)
        else:
            mv = vals((2, 3), seed, 43, False)
            R = I.LinearEinsum(dom, I.MultiField.from_dict({"a": fld(mkdom([U2, R3]), mv)}), "ij,j->i")
            A = I.SandwichOperator.make(R, None) + I.ScalingOperator(dom, 1.)
            Mx = mv.T @ mv + np.eye(3)
        ic = I.GradientNormController(tol_abs_gradnorm=1e-13, iteration_limit=50)
        approx = I.ScalingOperator(dom, 0.5) if c["approx"] else None
        op = I.InversionEnabler(A, ic, approximation=approx)
        return Built(op, lambda x: Mx @ x, cap=15, note="inverse by CG", inv_tol=1e-7, cond=float(np.linalg.cond(Mx)))
    return configs, build


@register("WienerFilterCurvature")
def _wfc():
    def configs(tier):
        return [dict(sampling=s, complex_R=cr) for s in (False, True) for cr in (False, True)]

    def build(c, seed):
        I = ift()
        dom = mkdom([R3])
        mv = vals((2, 3), seed, 47, c["complex_R"])
        R = I.LinearEinsum(dom, I.MultiField.from_dict({"a": fld(mkdom([U2, R3]), mv)}), "ij,j->i")
        nv, sv = vals((2,), seed, 53, False, positive=True), vals((3,), seed, 59, False, positive=True)
        N = I.DiagonalOperator(fld(mkdom([U2]), nv), sampling_dtype=np.float64)
        S = I.DiagonalOperator(fld(dom, sv), sampling_dtype=np.float64)
        ic = I.GradientNormController(tol_abs_gradnorm=1e-13, iteration_limit=60)
        op = I.WienerFilterCurvature(R, N, S, ic, ic if c["sampling"] else None)
        Mx = mv.conj().T @ np.diag(1. / nv) @ mv + np.diag(1. / sv)      # R^H N^-1 R + S^-1
        return Built(op, lambda x: Mx @ x, cap=15, inv_tol=1e-7, cond=float(np.linalg.cond(Mx)),
                     tag="sampling=%s" % c["sampling"])
    return configs, build


@register("JaxLinearOperator")
def _jaxlin():
    def configs(tier):
        out = []
        for how in ("func_T", "domain_dtype"):
            for mc in (False, True):
                for multi in (False, True):
                    for dt in ("f8", "c16"):
                        out.append(dict(how=how, mc=mc, multi=multi, _dts=[dt]))
        return out

    def build(c, seed):
        I = ift()
        import jax.numpy as jnp
        dt = np.float64 if c["_dts"][0] == "f8" else np.complex128
        M = vals((2, 3), seed, 61, c["mc"])
        Mj = jnp.array(M)
        if c["multi"]:
            dom = mkmdom({"a": [R3], "b": [U2]})
            tgt = mkmdom({"u": [U2], "v": [U2]})
            f = lambda x: {"u": Mj @ x["a"], "v": 2. * x["b"]}
            fT = lambda y: {"a": Mj.T @ y["u"], "b": 2. * y["v"]}
            ddt = {"a": dt, "b": dt}
            ref = lambda x: {"u": M @ x["a"], "v": 2. * x["b"]}
        else:
            dom, tgt = mkdom([R3]), mkdom([U2])
            f, fT, ddt = (lambda x: Mj @ x), (lambda y: Mj.T @ y), dt
            ref = lambda x: M @ x
        if c["how"] == "func_T":
            op = I.JaxLinearOperator(dom, tgt, f, func_T=fT)
        else:
            op = I.JaxLinearOperator(dom, tgt, f, domain_dtype=ddt)
        return Built(op, ref, cap=3, tag="how=%s,matrix=%s" % (c["how"], "complex" if c["mc"] else "real"))
    return configs, build
