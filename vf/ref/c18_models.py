"""Tiny Gaussian-likelihood models with an independent numpy reference (shared by C18, C19, C20).

Forward model on a latent vector x (keys a, b, c in this order, optional size-1 amplitude key z):

        y(x) = E(x) * ( R s(x) ),    s = concat_k f_k(x_k),   f_k = id | exp(EXPC .),   E = exp(AMPC x_z) | 1
        data = y + n,  n ~ N(0, diag(nvar)),   prior x ~ N(0, 1)

`Ref` is the closed-form dense-algebra model (value, Jacobian, Hamiltonian, gradient, Fisher metric,
geoVI coordinate transformation).  `build_cl` / `build_re` construct the same model with the library
(harness-side dense response leaf; everything else are library operators / jft.Gaussian.amend).
"""
import contextlib
import itertools

import numpy as np

EXPC = 0.4
AMPC = 0.3
AMP = "z"


def _r(x, nd=2):
    return float(np.round(x, nd))


class Fill:
    """Generic numeric fill (selected by VERIF_SEED; never the structure)."""

    def __init__(self, seed, variant=0, salt=1800):
        self.rng = np.random.default_rng([int(salt), int(seed), int(variant)])

    def vec(self, n, lo=-1.0, hi=1.0, away=0.15):
        v = self.rng.uniform(lo, hi, n)
        v = np.where(np.abs(v) < away, np.sign(v + 1e-30) * away, v)
        return [_r(x) for x in v]

    def pos(self, n, lo=0.1, hi=2.0):
        return [_r(x) for x in self.rng.uniform(lo, hi, n)]

    def matrix(self, m, n, rank=None):
        """m x n real matrix, nonzero singular values in [0.3, 4]; exact rank `rank` if given."""
        for _ in range(2000):
            A = np.round(self.rng.uniform(-1.5, 1.5, (m, n)), 2)
            r = min(m, n)
            if rank is not None and rank < min(m, n):
                A[-1] = 0.5 * A[0] - 0.25 * A[1 % max(1, m - 1)] if m > 2 else 0.5 * A[0]
                r = rank
            s = np.linalg.svd(A, compute_uv=False)
            if s[r - 1] >= 0.3 and s[0] <= 4. and (r == len(s) or s[r] <= 1e-12):
                return A
        raise RuntimeError("no well-conditioned matrix found")


LAYOUTS = {
    # name: (field?, [(key, size, kind)])
    "F3": (True, [("a", 3, "rg")]),
    "F2": (True, [("a", 2, "un")]),
    "a2b1": (False, [("a", 2, "rg"), ("b", 1, "un")]),
    "a1b2": (False, [("a", 1, "un"), ("b", 2, "rg")]),
    "a1b1c1": (False, [("a", 1, "un"), ("b", 1, "rg"), ("c", 1, "un")]),
    "a2b1c1": (False, [("a", 2, "rg"), ("b", 1, "un"), ("c", 1, "un")]),
    "a2": (False, [("a", 2, "rg")]),
}
RSHAPES = ("full", "rankdef", "wide", "tall", "zerorow", "zerocol", "zero")


def make_spec(F, layout, rshape, nl, noise, amp=False):
    """nl: tuple of 'lin'/'exp' per key of the layout; noise: 'scalar' | 'diag' | float (scalar variance)."""
    field, keys = LAYOUTS[layout]
    n = sum(s for _, s, _ in keys)
    if rshape == "full":
        R = F.matrix(n, n)
    elif rshape == "rankdef":
        R = F.matrix(n, n, rank=n - 1)
    elif rshape == "wide":
        R = F.matrix(n - 1, n)
    elif rshape == "tall":
        R = F.matrix(n + 1, n)
    elif rshape == "zerorow":
        R = F.matrix(n, n)
        R[1 % n] = 0.
    elif rshape == "zerocol":
        R = F.matrix(n, n)
        R[:, n - 1] = 0.
    elif rshape == "zero":
        R = np.zeros((n, n))
    else:
        raise ValueError(rshape)
    nd = R.shape[0]
    if noise == "scalar":
        nvar = [0.25] * nd
    elif noise == "diag":
        nvar = F.pos(nd, 0.1, 2.0)
    else:
        nvar = [float(noise)] * nd
    pos = {k: F.vec(s) for k, s, _ in keys}
    if amp:
        pos[AMP] = F.vec(1)
    name = "%s|%s|%s|%s%s" % (layout, rshape, "+".join(nl), noise, "|amp" if amp else "")
    return dict(name=name, field=bool(field), keys=[[k, s, kd] for k, s, kd in keys], nl=dict(zip([k for k, _, _ in keys], nl)),
                amp=AMP if amp else None, R=[[float(x) for x in row] for row in R], nvar=[float(x) for x in nvar],
                data=F.vec(nd, -2., 2.), pos=pos)


def is_linear(spec):
    return spec["amp"] is None and all(v == "lin" for v in spec["nl"].values())


def all_keys(spec):
    return [k for k, _, _ in spec["keys"]] + ([spec["amp"]] if spec["amp"] else [])


def subsets(keys, proper=False):
    out = []
    for r in range(len(keys) + (0 if proper else 1)):
        out += [list(c) for c in itertools.combinations(keys, r)]
    return out


# =====================================================================================
#                               numpy reference model
# =====================================================================================
class Ref:
    def __init__(self, spec):
        self.spec = spec
        self.keys = all_keys(spec)
        self.size = {k: s for k, s, _ in spec["keys"]}
        if spec["amp"]:
            self.size[spec["amp"]] = 1
        self.sl, off = {}, 0
        for k in self.keys:
            self.sl[k] = slice(off, off + self.size[k])
            off += self.size[k]
        self.n = off
        self.ns = sum(s for _, s, _ in spec["keys"])
        self.R = np.array(spec["R"], dtype=np.float64).reshape(-1, self.ns)
        self.nd = self.R.shape[0]
        self.nvar = np.array(spec["nvar"], dtype=np.float64)
        self.d = np.array(spec["data"], dtype=np.float64)
        self.expmask = np.zeros(self.ns, dtype=bool)
        for k, _, _ in spec["keys"]:
            if spec["nl"][k] == "exp":
                self.expmask[self.sl[k]] = True
        self.amp = spec["amp"]
        self.p = self.flat(spec["pos"])

    # ---- layout
    def flat(self, d):
        return np.concatenate([np.asarray(d[k], dtype=np.float64).reshape(-1) for k in self.keys])

    def idx(self, keys):
        return np.array([i for k in self.keys if k in keys for i in range(self.sl[k].start, self.sl[k].stop)], dtype=int)

    def not_idx(self, keys):
        return np.array([i for k in self.keys if k not in keys for i in range(self.sl[k].start, self.sl[k].stop)], dtype=int)

    # ---- forward model
    def signal(self, x):
        s = np.array(x[:self.ns], dtype=np.float64)
        s[self.expmask] = np.exp(EXPC * s[self.expmask])
        return s

    def dsignal(self, x):
        s = np.ones(self.ns)
        s[self.expmask] = EXPC * np.exp(EXPC * np.asarray(x)[:self.ns][self.expmask])
        return s

    def forward(self, x):
        y = self.R @ self.signal(x)
        if self.amp:
            y = y * np.exp(AMPC * x[-1])
        return y

    def jac(self, x):
        J = self.R * self.dsignal(x)[None, :]
        if self.amp:
            e = np.exp(AMPC * x[-1])
            J = np.concatenate([e * J, (AMPC * e * (self.R @ self.signal(x)))[:, None]], axis=1)
        return J

    # ---- Hamiltonian = Gaussian likelihood energy + standard prior
    def ham(self, x):
        r = self.d - self.forward(x)
        return 0.5 * float(r @ (r / self.nvar)) + 0.5 * float(x @ x)

    def grad(self, x):
        r = self.d - self.forward(x)
        return -self.jac(x).T @ (r / self.nvar) + x

    def metric(self, x):
        J = self.jac(x)
        return J.T @ (J / self.nvar[:, None]) + np.eye(self.n)

    # ---- geoVI coordinate transformation around the expansion point p
    def trafo(self, x):
        return self.forward(x) / np.sqrt(self.nvar)

    def geo(self, x, p, S=None):
        """g(x) - g(p) restricted to the sampled indices S:  (x - p)_S + J_S(p)^T (t(x) - t(p))."""
        S = np.arange(self.n) if S is None else S
        Jt = self.jac(p)[:, S] / np.sqrt(self.nvar)[:, None]
        return (x - p)[S] + Jt.T @ (self.trafo(x) - self.trafo(p))

    # ---- linear Gaussian closed forms (C20)
    def posterior(self):
        """(mean, covariance) of the exact posterior of the linear model."""
        D = np.linalg.inv(self.metric(self.p))
        m = D @ (self.R.T @ (self.d / self.nvar))
        return m, D


# =====================================================================================
#                               classic (nifty.cl) builders
# =====================================================================================
_DenseOp = None


def cl_flat(x, keys=None):
    import nifty.cl as ift
    if isinstance(x, ift.MultiField):
        ks = list(x.domain.keys()) if keys is None else [k for k in keys if k in x.domain.keys()]
        return np.concatenate([np.asarray(x[k].asnumpy()).reshape(-1) for k in ks]) if ks else np.zeros(0)
    return np.asarray(x.asnumpy()).reshape(-1)


def dense_cls():
    """Harness-side rectangular dense matrix leaf DomainTuple -> DomainTuple."""
    global _DenseOp
    if _DenseOp is not None:
        return _DenseOp
    import nifty.cl as ift

    class DenseOp(ift.LinearOperator):
        def __init__(self, dom, tgt, mat):
            self._domain = ift.DomainTuple.make(dom)
            self._target = ift.DomainTuple.make(tgt)
            self._m = np.asarray(mat, dtype=np.float64).reshape(self._target.size, self._domain.size)
            self._capability = self.TIMES | self.ADJOINT_TIMES

        def apply(self, x, mode):
            self._check_input(x, mode)
            v = np.asarray(x.asnumpy()).reshape(-1)
            if mode == self.TIMES:
                return ift.makeField(self._target, (self._m @ v).reshape(self._target.shape))
            return ift.makeField(self._domain, (self._m.T @ v).reshape(self._domain.shape))

        def __repr__(self):
            return "DenseOp%s" % (self._m.shape,)
    _DenseOp = DenseOp
    return DenseOp


def _cl_dom(kind, size):
    import nifty.cl as ift
    return ift.RGSpace(int(size)) if kind == "rg" else ift.UnstructuredDomain(int(size))


def build_cl(spec):
    """-> dict(lh, pos, dom, N, Rop (only linear models), ddom)"""
    import nifty.cl as ift
    D = dense_cls()
    ref = Ref(spec)
    ddom = ift.DomainTuple.make(ift.UnstructuredDomain(ref.nd))
    if spec["field"]:
        k, size, kind = spec["keys"][0]
        dom = ift.DomainTuple.make(_cl_dom(kind, size))
        Rop = D(dom, ddom, ref.R)
        op = Rop if spec["nl"][k] == "lin" else Rop @ ift.ScalingOperator(dom, EXPC).exp()
        pos = ift.makeField(dom, np.array(spec["pos"][k], dtype=np.float64).reshape(dom.shape))
    else:
        op = None
        pd = {}
        for k, size, kind in spec["keys"]:
            dk = ift.DomainTuple.make(_cl_dom(kind, size))
            fa = ift.FieldAdapter(dk, k)
            sk = fa if spec["nl"][k] == "lin" else (EXPC * fa).exp()
            t = D(dk, ddom, ref.R[:, ref.sl[k]]) @ sk
            op = t if op is None else op + t
            pd[k] = ift.makeField(dk, np.array(spec["pos"][k], dtype=np.float64).reshape(dk.shape))
        if spec["amp"]:
            d1 = ift.DomainTuple.make(ift.UnstructuredDomain(1))
            e = (AMPC * ift.FieldAdapter(d1, spec["amp"])).exp()
            op = (D(d1, ddom, np.ones((ref.nd, 1))) @ e) * op
            pd[spec["amp"]] = ift.makeField(d1, np.array(spec["pos"][spec["amp"]], dtype=np.float64))
        pos = ift.MultiField.from_dict(pd)
        if pos.domain is not op.domain:
            pos = pos.extract(op.domain)
        Rop = op if is_linear(spec) else None
    N = ift.DiagonalOperator(ift.makeField(ddom, ref.nvar), sampling_dtype=np.float64)
    data = ift.makeField(ddom, ref.d)
    lh = ift.GaussianEnergy(data=data, inverse_covariance=N.inverse) @ op
    return dict(lh=lh, pos=pos, dom=op.domain, N=N, op=op, Rop=Rop, data=data, ddom=ddom, ref=ref)


def cl_unflat(dom, vec, keys):
    """flat reference vector (keys in reference order) -> Field / MultiField on dom."""
    import nifty.cl as ift
    vec = np.asarray(vec, dtype=np.float64)
    if isinstance(dom, ift.MultiDomain):
        d, off = {}, 0
        for k in keys:
            if k not in dom.keys():
                continue
            n = dom[k].size
            d[k] = ift.makeField(dom[k], vec[off:off + n].reshape(dom[k].shape).copy())
            off += n
        return ift.MultiField.from_dict(d, dom)
    return ift.makeField(dom, vec.reshape(dom.shape).copy())


def quiet_cl():
    import logging
    import nifty.cl as ift
    ift.logger.setLevel(logging.CRITICAL)
    logging.getLogger("NIFTy").setLevel(logging.CRITICAL)


# =====================================================================================
#                               JAX (nifty.re) builders
# =====================================================================================
def quiet_re():
    import logging
    for nm in ("NIFTy", "nifty", "nifty.re", "nifty.re.logger", "jax"):
        logging.getLogger(nm).setLevel(logging.CRITICAL)
    try:
        from nifty.re.logger import logger
        logger.setLevel(logging.CRITICAL)
    except Exception:   # noqa
        pass


def build_re(spec):
    """-> dict(lh, pos, ref, fwd); pos is a jft.Vector over a dict (or over a bare array for field layouts)."""
    import jax.numpy as jnp
    import nifty.re as jft
    quiet_re()
    ref = Ref(spec)
    R = jnp.asarray(ref.R)
    nvar = jnp.asarray(ref.nvar)
    keys = [k for k, _, _ in spec["keys"]]
    nl = dict(spec["nl"])
    amp = spec["amp"]
    sl = dict(ref.sl)
    if spec["field"]:
        k0 = keys[0]

        def fwd(x):
            x = getattr(x, "tree", x)
            return R @ (x if nl[k0] == "lin" else jnp.exp(EXPC * x))
        pos = jft.Vector(jnp.asarray(np.array(spec["pos"][k0], dtype=np.float64)))
        dom = jft.ShapeWithDtype((ref.ns,), jnp.float64)
    else:
        def fwd(x):
            x = getattr(x, "tree", x)
            y = 0.
            for k in keys:
                y = y + R[:, sl[k]] @ (x[k] if nl[k] == "lin" else jnp.exp(EXPC * x[k]))
            if amp:
                y = y * jnp.exp(AMPC * x[amp][0])
            return y
        pos = jft.Vector({k: jnp.asarray(np.array(spec["pos"][k], dtype=np.float64)) for k in ref.keys})
        dom = {k: jft.ShapeWithDtype((ref.size[k],), jnp.float64) for k in ref.keys}
    import warnings
    with warnings.catch_warnings():
        warnings.simplefilter("ignore")
        g = jft.Gaussian(jnp.asarray(ref.d), noise_cov_inv=lambda t: t / nvar, noise_std_inv=lambda t: t / jnp.sqrt(nvar))
        lh = g.amend(fwd, domain=jft.Vector(dom))
    return dict(lh=lh, pos=pos, ref=ref, fwd=fwd)


def re_flat(x, ref, lead=0):
    """Vector / dict / array with `lead` leading batch axes -> numpy array (..., n) in reference key order.
    Leaves broadcastable against the key's shape (the (1,)-shaped zero fill of point estimates) are broadcast."""
    t = getattr(x, "tree", x)
    if isinstance(t, dict):
        parts = []
        for k in ref.keys:
            a = np.asarray(t[k])
            parts.append(np.broadcast_to(a, a.shape[:lead] + (ref.size[k],)))
        return np.concatenate(parts, axis=lead)
    a = np.asarray(t)
    return np.broadcast_to(a, a.shape[:lead] + (ref.n,))


def re_leaf_shapes(x):
    import jax
    return [tuple(np.shape(l)) for l in jax.tree_util.tree_leaves(x)]


def re_unflat(vec, ref, like):
    import jax.numpy as jnp
    import nifty.re as jft
    vec = np.asarray(vec, dtype=np.float64)
    t = getattr(like, "tree", like)
    if isinstance(t, dict):
        return jft.Vector({k: jnp.asarray(vec[ref.sl[k]]) for k in ref.keys})
    return jft.Vector(jnp.asarray(vec))


def pymap(fun, in_axes=0, out_axes=0):
    """Python-loop replacement for vmap/lmap (the scripted tape must be consumed once per mapped call)."""
    import jax
    import jax.numpy as jnp

    def mapped(*args):
        axes = in_axes if isinstance(in_axes, tuple) else (in_axes,) * len(args)
        n = None
        for a, ax in zip(args, axes):
            if ax is not None:
                n = int(np.shape(jax.tree_util.tree_leaves(a)[0])[0])
                break
        outs = []
        for i in range(n):
            outs.append(fun(*[a if ax is None else jax.tree_util.tree_map(lambda l: l[i], a) for a, ax in zip(args, axes)]))
        return jax.tree_util.tree_map(lambda *xs: jnp.stack([jnp.asarray(x) for x in xs]), *outs)
    return mapped


class KeyReuse(RuntimeError):
    pass


@contextlib.contextmanager
def scripted_re_keyed(tape):
    """rngseam.scripted_re + the defining property of a counter-based PRNG: the same key gives the same draw
    (geoVI re-draws the metric sample from the stored key), distinct keys give fresh tape entries."""
    import jax
    from vf import rngseam
    import nifty.re as jft
    from nifty.re.tree_math import forest_math
    import nifty.re.evi as evi
    import nifty.re.hmc as hmc
    with rngseam.scripted_re(tape):
        inner = evi.random_like
        memo = {}

        def keyed(key, primals, rng=None):
            try:
                kd = jax.random.key_data(key) if jax.dtypes.issubdtype(key.dtype, jax.dtypes.prng_key) else key
            except Exception:   # noqa
                kd = key
            kb = np.asarray(kd).tobytes()
            leaves, td = jax.tree_util.tree_flatten(primals)
            sig = (str(td),) + tuple((tuple(getattr(l, "shape", ())), str(getattr(l, "dtype", ""))) for l in leaves)
            if kb in memo:
                if memo[kb][0] != sig:
                    raise KeyReuse("one PRNG key used for two different draws: %s vs %s" % (memo[kb][0], sig))
                return memo[kb][1]
            v = inner(key, primals)
            memo[kb] = (sig, v)
            return v
        mods = [m for m in (forest_math, evi, hmc, jft.tree_math, jft) if hasattr(m, "random_like")]
        for m in mods:
            m.random_like = keyed
        try:
            yield tape
        finally:
            for m in mods:
                m.random_like = inner


# =====================================================================================
#                               exact linear maps through the seam
# =====================================================================================
def tape_map(run, flat, ctx, prefix=None, probes=True):
    """run() executes library code (inside ctx(tape)); flat(result) -> 1-D vector.
    Returns dict(off, L, n, resid, log) with flat(run()) = off + L xi (xi = scripted normals after `prefix`)."""
    from vf import rngseam
    pre = np.zeros(0) if prefix is None else np.asarray(prefix, dtype=np.float64)

    class _Rec(rngseam.Tape):
        """recording tape: serves the prefix, then zeros"""
        def take(self, n):
            n = int(n)
            self.log.append(n)
            out = np.zeros(n)
            m = max(0, min(n, pre.size - self.pos))
            out[:m] = pre[self.pos:self.pos + m]
            self.pos += n
            return out
    t = _Rec(None)
    with ctx(t):
        res0 = run()
    ntot = t.pos
    if ntot < pre.size:
        raise RuntimeError("prefix longer than the tape (%d > %d)" % (pre.size, ntot))
    n = ntot - pre.size
    off = np.asarray(flat(res0), dtype=np.float64)

    def at(xi):
        tp = rngseam.Tape(np.concatenate([pre, xi]))
        with ctx(tp):
            r = run()
        if tp.pos != ntot:
            raise RuntimeError("number of draws depends on the drawn values (%d vs %d)" % (tp.pos, ntot))
        return np.asarray(flat(r), dtype=np.float64)
    L = np.zeros((off.size, n))
    for i in range(n):
        xi = np.zeros(n)
        xi[i] = 1.
        L[:, i] = at(xi) - off
    resid = np.zeros(off.size)
    if probes and n > 0:
        P = []
        xi = np.zeros(n)
        xi[0] = 2.
        P.append(xi)
        P.append(generic_tape(n))
        for xi in P:
            resid = np.maximum(resid, np.abs(at(xi) - off - L @ xi))
    return dict(off=off, L=L, n=n, resid=float(resid.max(initial=0.)), resid_vec=resid, log=list(t.log), at=at, res0=res0,
                ntot=ntot)


def generic_tape(n):
    """A fixed generic (no zeros, no symmetry) excitation used for the linearity probe / per-tape identities."""
    return np.linspace(-1., 1.5, n) + 0.25 + 0.1 * np.cos(3. * np.arange(n))


# =====================================================================================
#          complex response, complex data, real latent parameters (C20 extension)
# =====================================================================================
def make_cspec(F, layout, rshape, noise):
    """linear model d = R s + n with COMPLEX R (nd x n), complex data, real standard-normal s.
    rshape 'full': Re R, Im R generic;  'rankdef': R = (A + iB) K with a real rank n-1 matrix K (one real latent
    direction is unobserved), 'wide': (n-1) x n generic complex."""
    field, keys = LAYOUTS[layout]
    n = sum(s for _, s, _ in keys)
    if rshape == "full":
        Rc = F.matrix(n, n) + 1j * F.matrix(n, n)
    elif rshape == "wide":
        Rc = F.matrix(n - 1, n) + 1j * F.matrix(n - 1, n)
    elif rshape == "rankdef":
        K = F.matrix(n, n, rank=n - 1)
        A, B = np.round(F.matrix(n, n), 2), np.round(F.matrix(n, n), 2)
        Rc = (A + 1j * B) @ K / 2.
    else:
        raise ValueError(rshape)
    nd = Rc.shape[0]
    nvar = [float(noise)] * nd if not isinstance(noise, str) else F.pos(nd, 0.1, 2.0)
    spec = dict(name="%s|c-%s|%s|%s" % (layout, rshape, "+".join("lin" for _ in keys), noise), field=bool(field),
                keys=[[k, s, kd] for k, s, kd in keys], nl={k: "lin" for k, _, _ in keys}, amp=None,
                R=[[float(x) for x in row] for row in Rc.real], Ri=[[float(x) for x in row] for row in Rc.imag],
                nvar=[float(x) for x in nvar], data=F.vec(nd, -2., 2.), datai=F.vec(nd, -2., 2.),
                pos={k: F.vec(s) for k, s, _ in keys})
    return spec


class CRef(Ref):
    """closed forms for the complex-response model through the real-ified system Rr = [Re R; Im R], Nr = diag(N, N):
       D = (1 + Re(R^H N^-1 R))^-1,  m = D Re(R^H N^-1 d)."""

    def __init__(self, spec):
        Ref.__init__(self, spec)
        self.Rc = self.R + 1j * np.array(spec["Ri"], dtype=np.float64).reshape(self.R.shape)
        self.dc = self.d + 1j * np.array(spec["datai"], dtype=np.float64)
        self.Rr = np.concatenate([self.Rc.real, self.Rc.imag], axis=0)
        self.nvr = np.concatenate([self.nvar, self.nvar])

    def cposterior(self, dc=None):
        dc = self.dc if dc is None else np.asarray(dc)
        Minfo = self.Rr.T @ (self.Rr / self.nvr[:, None]) + np.eye(self.n)
        D = np.linalg.inv(Minfo)
        dr = np.concatenate([dc.real, dc.imag])
        return D @ (self.Rr.T @ (dr / self.nvr)), D

    def cfilter(self):
        """n x 2nd matrix: columns = posterior mean for data e_k (k < nd) and i e_k"""
        _, D = self.cposterior()
        return D @ (self.Rr.T / self.nvr[None, :])


def build_re_cplx(spec, dc=None):
    import warnings
    import jax.numpy as jnp
    import nifty.re as jft
    quiet_re()
    ref = CRef(spec)
    Rc = jnp.asarray(ref.Rc)
    nvar = jnp.asarray(ref.nvar)
    keys = [k for k, _, _ in spec["keys"]]
    sl = dict(ref.sl)
    if spec["field"]:
        def fwd(x):
            return Rc @ getattr(x, "tree", x)
        pos = jft.Vector(jnp.asarray(np.array(spec["pos"][keys[0]], dtype=np.float64)))
        dom = jft.ShapeWithDtype((ref.ns,), jnp.float64)
    else:
        def fwd(x):
            x = getattr(x, "tree", x)
            y = 0.
            for k in keys:
                y = y + Rc[:, sl[k]] @ x[k]
            return y
        pos = jft.Vector({k: jnp.asarray(np.array(spec["pos"][k], dtype=np.float64)) for k in ref.keys})
        dom = {k: jft.ShapeWithDtype((ref.size[k],), jnp.float64) for k in ref.keys}
    data = jnp.asarray(ref.dc if dc is None else np.asarray(dc, dtype=np.complex128))
    with warnings.catch_warnings():
        warnings.simplefilter("ignore")
        g = jft.Gaussian(data, noise_cov_inv=lambda t: t / nvar, noise_std_inv=lambda t: t / jnp.sqrt(nvar))
        lh = g.amend(fwd, domain=jft.Vector(dom))
    return dict(lh=lh, pos=pos, ref=ref, fwd=fwd)
