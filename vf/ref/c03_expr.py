"""Expression generator and three interpreters for C03 / C04.

A tree is a JSON value: a leaf name (str) or [opname, child, ...].  Every
tree is interpreted three times:

  build_op(tree, env)        nifty.cl Operator            (operator API)
  lin_eval(tree, env, inp)   methods of Linearization / Field objects
  ref_eval(tree, env, xp, inp, guard)
                             independent transliteration on plain arrays;
                             xp = numpy (values, premise guards) or jax.numpy
                             (differentiated with jax.jacfwd on the real-ified
                             input, so non-holomorphic nodes are handled too)

Types of intermediate values
  S   field on the 2-pixel space (RGSpace(2), pixel volume 0.5)
  0   scalar field            E  scalar produced by a likelihood energy (has a metric)
  H   StandardHamiltonian     SS field on (S, S)
  Mu, Muv   multi-domain valued ({u: S} / {u: S, v: S})
"""
import numpy as np

NPIX = 2
VOL = 0.5          # pixel volume of RGSpace(2) (default distances 1/npix)


class Outside(Exception):
    """The case is outside the premise of the property (argument outside the
    valid range of a point-wise function, non-holomorphic function on a
    complex value, ...)."""


# ---------------------------------------------------------------- alphabet
def alphabet(seed):
    """Generic numeric fill; VERIF_SEED selects it, never the structure."""
    rng = np.random.default_rng(7919 + 31 * int(seed))

    def u(lo, hi, shape=()):
        return rng.uniform(lo, hi, shape)

    def sg(shape=()):
        return rng.choice([-1., 1.], shape)

    A = {}
    A["M"] = u(.3, .9, (2, 2)) + .5 * np.eye(2)
    A["Mi"] = u(.2, .6, (2, 2)) * sg((2, 2))
    A["d"] = u(.5, 1.5, 2)
    A["di"] = u(.3, .8, 2) * sg(2)
    A["c"] = u(.5, 1.5, 2)
    A["ci"] = u(.3, .8, 2) * sg(2)
    A["dpos"] = u(.5, 2., 2)
    A["s"] = float(u(1.2, 1.9))
    A["sc"] = complex(u(.5, .9), -u(.4, .8))
    A["base"] = float(u(1.4, 2.2))
    A["theta"] = float(u(2.5, 4.))
    A["beta"] = u(.5, 1.5, 2)
    A["es"] = float(u(1.5, 2.5))
    A["counts"] = np.array([int(rng.integers(1, 4)), int(rng.integers(0, 3))])
    A["events"] = np.array([1, 0])
    A["Qh"] = np.array([[1.2, .3], [-.4, 1.1]]) + np.diag(u(0., .5, 2))
    A["Q"] = A["Qh"].T @ A["Qh"]
    pts = []
    for g in range(4):
        p = {}
        for i, k in enumerate("abcx"):
            re = u(.4, 1.3, 2)
            im = u(.3, .8, 2) * sg(2)
            if g % 2 == 1:
                re[(g // 2 + i) % 2] *= -1.
            if k == "x" and g % 2 == 1:
                re[(g // 2) % 2] = -abs(re[(g // 2) % 2])
            p[k] = (re, im)
        pts.append(p)
    # points 4, 5: extreme arguments for single-node trees (large |x| beyond the switch-over of numerically
    # stabilised formulas such as softplus / sigmoid / log1p(exp), tiny |x| for series branches such as sinc / expm1)
    for big in (True, False):
        p = {}
        for i, k in enumerate("abcx"):
            re = (np.array([35.5, -37.25]) + u(0., 0.5, 2)) if big else (np.array([1e-6, -3e-7]) * u(1., 2., 2))
            p[k] = (re, u(.3, .8, 2) * sg(2))
        pts.append(p)
    rng2 = np.random.default_rng(104729 + 31 * int(seed))      # separate stream: matrix-valued keys P, Q, R on (S, S)
    for g in range(4):
        for k in "PQR":
            re = rng2.uniform(.4, 1.3, (NPIX, NPIX))
            im = rng2.uniform(.3, .8, (NPIX, NPIX)) * rng2.choice([-1., 1.], (NPIX, NPIX))
            if g % 2 == 1:
                re[g // 2, (g // 2 + "PQR".index(k)) % 2] *= -1.
            pts[g][k] = (re, im)
    for g in (4, 5):
        for k in "PQR":
            pts[g][k] = pts[0][k]
    A["cm"] = rng2.uniform(.5, 1.5, (NPIX, NPIX))
    A["cmi"] = rng2.uniform(.3, .8, (NPIX, NPIX)) * rng2.choice([-1., 1.], (NPIX, NPIX))
    A["points"] = pts
    return A


# ---------------------------------------------------------------- point-wise table (reference side)
NONHOLO = {"abs", "absolute", "sign", "clip", "unitstep", "softplus"}
CLIP = (0.62, 1.12)


def _pole_dist(v, xp=np):
    return np.abs(np.cos(v))


def _cplx(v):
    return np.iscomplexobj(v)


def _away_from_cut(v, m=0.2):
    """not near the branch cut on the negative real axis / the origin"""
    v = np.asarray(v)
    if _cplx(v):
        return bool(np.all(np.abs(v) >= m) and np.all((v.real >= m) | (np.abs(v.imag) >= m)))
    return bool(np.all(v >= m))


def ptw_guard(name, v):
    """Raise Outside unless every entry of v is in the documented / safe range."""
    f = name.split(":")[0]
    v = np.asarray(v)
    if not np.all(np.isfinite(v)) or np.abs(v).max(initial=0.) > 40.:
        raise Outside("argument too large")
    cplx = _cplx(v)
    if cplx and f in NONHOLO:
        raise Outside("non-holomorphic function on complex value")
    ok = True
    if f in ("sqrt", "log", "log10"):
        ok = _away_from_cut(v)
    elif f == "power":
        ok = True if name == "power:3" else _away_from_cut(v)
    elif f == "log1p":
        ok = _away_from_cut(1. + v)
    elif f == "reciprocal":
        ok = np.all(np.abs(v) >= .2)
    elif f == "tan":
        ok = np.all(np.abs(np.cos(v)) >= .2)
    elif f in ("tanh", "sigmoid"):
        ok = np.all(np.abs(np.cosh(v)) >= .2) if cplx else True
    elif f == "arctan":
        ok = (np.all(np.abs(1. + v * v) >= .2) and
              np.all((np.abs(v.real) >= .2) | (np.abs(v.imag) <= .8))) if cplx else True
    elif f == "sinc":
        ok = np.all(np.abs(v) >= .05)
    elif f in ("abs", "absolute", "sign", "unitstep"):
        ok = np.all(np.abs(v) >= .05)
    elif f == "clip":
        ok = np.all(np.abs(v - CLIP[0]) >= .03) and np.all(np.abs(v - CLIP[1]) >= .03)
    if f in ("exp", "expm1", "sinh", "cosh", "exponentiate") or (cplx and f in ("softplus", "sin", "cos", "tan", "sinc")):
        ok = ok and np.all(np.abs(v.real) <= 12.) and np.all(np.abs(v.imag) <= 12.)
    if not ok:
        raise Outside("argument outside valid range of " + f)


def ptw_ref(name, xp, v, A):
    f = name.split(":")[0]
    if f in ("sqrt", "sin", "cos", "tan", "exp", "expm1", "log", "log10", "log1p", "sinh", "cosh", "tanh", "arctan"):
        return getattr(xp, f)(v)
    if f == "sinc":
        return xp.sin(np.pi * v) / (np.pi * v)
    if f == "sigmoid":
        return 0.5 + 0.5 * xp.tanh(v)
    if f == "reciprocal":
        return 1. / v
    if f in ("abs", "absolute"):
        return xp.abs(v)
    if f == "sign":
        return xp.sign(v)
    if f == "power":
        return v ** (3 if name == "power:3" else 2.5)
    if f == "clip":
        return xp.clip(v, CLIP[0], CLIP[1])
    if f == "softplus":
        return xp.log(1. + xp.exp(v))
    if f == "exponentiate":
        return xp.exp(v * np.log(A["base"]))
    if f == "unitstep":
        return xp.where(v >= 0., 1., 0.)
    raise KeyError(name)


def ptw_args(name, A):
    f = name.split(":")[0]
    if f == "power":
        return (3,) if name == "power:3" else (2.5,)
    if f == "clip":
        return CLIP
    if f == "exponentiate":
        return (A["base"],)
    return ()


PTW_ALL = ["exp", "sqrt", "sin", "cos", "tan", "sinc", "expm1", "log", "log10", "log1p", "sinh", "cosh", "tanh",
           "sigmoid", "reciprocal", "abs", "absolute", "sign", "power:2.5", "power:3", "clip", "softplus",
           "exponentiate", "arctan", "unitstep"]


# ---------------------------------------------------------------- environment
_dense_cls = []


def dense_operator(domain, target, mat):
    """Harness-side linear leaf with an explicit matrix (TIMES = M x, ADJOINT = M^H y).
    (MatrixProductOperator is not used: it is square-only and prints debug output on every apply.)"""
    import nifty.cl as ift
    if not _dense_cls:
        class DenseOperator(ift.LinearOperator):
            def __init__(self, domain, target, mat):
                self._domain = ift.DomainTuple.make(domain)
                self._target = ift.DomainTuple.make(target)
                self._m = np.array(mat)
                self._capability = self.TIMES | self.ADJOINT_TIMES

            def apply(self, x, mode):
                self._check_input(x, mode)
                v = x.asnumpy().reshape(-1)
                if mode == self.TIMES:
                    return ift.makeField(self._target, (self._m @ v).reshape(self._target.shape))
                return ift.makeField(self._domain, (self._m.conj().T @ v).reshape(self._domain.shape))

            def __repr__(self):
                return "DenseOperator%s" % (self._m.shape,)
        _dense_cls.append(DenseOperator)
    return _dense_cls[0](domain, target, mat)


class Env:
    """nifty-side constants for one (seed, dtype) pair."""

    def __init__(self, seed, cplx):
        import nifty.cl as ift
        self.ift = ift
        self.cplx = bool(cplx)
        A = dict(alphabet(seed))
        if cplx:
            A["M"] = A["M"] + 1j * A["Mi"]
            A["c"] = A["c"] + 1j * A["ci"]
            A["d"] = A["d"] + 1j * A["di"]
        self.A = A
        self.S = ift.DomainTuple.make(ift.RGSpace(NPIX))
        self.SS = ift.DomainTuple.make((ift.RGSpace(NPIX), ift.RGSpace(NPIX)))
        if cplx:
            A["cm"] = A["cm"] + 1j * A["cmi"]
        S = self.S
        self.cF = ift.makeField(S, A["c"])
        self.dF = ift.makeField(S, A["d"])
        self.Mop = dense_operator(S, S, A["M"])
        self.dposF = ift.makeField(S, A["dpos"])
        self.Dop = ift.makeOp(self.dposF)
        self.Qop = ift.SandwichOperator.make(dense_operator(S, S, A["Qh"]))
        self._cache = {}

    # lazily built library objects (energies, jax operators)
    def dom_of(self, key):
        """input keys a, b, c, x live on S; the matrix-valued keys P, Q, R on (S, S)"""
        return self.SS if key.isupper() else self.S

    def obj(self, name):
        if name in self._cache:
            return self._cache[name]
        ift, S, A = self.ift, self.S, self.A
        dt = np.complex128 if self.cplx else np.float64
        if name == "gauss_d":
            o = ift.GaussianEnergy(data=self.dF)
        elif name == "gauss_icov":
            o = ift.GaussianEnergy(inverse_covariance=ift.makeOp(self.dposF, sampling_dtype=dt))
        elif name == "gauss_d_icov":
            o = ift.GaussianEnergy(data=self.dF, inverse_covariance=ift.makeOp(self.dposF, sampling_dtype=dt))
        elif name == "poisson":
            o = ift.PoissonianEnergy(ift.makeField(S, A["counts"]))
        elif name == "invgamma":
            o = ift.InverseGammaEnergy(ift.makeField(S, A["beta"]))
        elif name == "studentt":
            o = ift.StudentTEnergy(S, A["theta"])
        elif name == "bernoulli":
            o = ift.BernoulliEnergy(ift.makeField(S, A["events"]))
        elif name == "sqnorm":
            o = ift.Squared2NormOperator(S)
        elif name == "quadform":
            o = ift.QuadraticFormOperator(self.Qop)
        elif name == "vcge":
            o = ift.VariableCovarianceGaussianEnergy(S, "u", "v", dt)
        elif name == "einsum":
            o = ift.MultiLinearEinsum({"u": S, "v": S}, "i,i->i")
        elif name == "einsum0":
            o = ift.MultiLinearEinsum({"u": S, "v": S}, "i,i->")
        elif name == "jaxS":
            import jax.numpy as jnp
            o = ift.JaxOperator(S, S, lambda x: jnp.sin(x) * x + 0.5 * x ** 2)
        elif name == "jaxM":
            import jax.numpy as jnp
            o = ift.JaxOperator({"u": S, "v": S}, S, lambda d: d["u"] * jnp.exp(d["v"]) + d["v"])
        else:
            raise KeyError(name)
        self._cache[name] = o
        return o


_envs = {}


def get_env(seed, cplx):
    k = (int(seed), bool(cplx))
    if k not in _envs:
        _envs[k] = Env(*k)
    return _envs[k]


# ---------------------------------------------------------------- node table
class Node:
    def __init__(self, name, ar, typ, op, lin, ref, guard=None, oponly=False, linonly=False, keys=(),
                 needs_inp=False):
        self.name, self.ar, self.typ = name, ar, typ
        self.op, self.lin, self.ref, self.guard = op, lin, ref, guard
        self.oponly, self.linonly = oponly, linonly
        self.keys = set(keys)          # input keys the node reads directly (besides those of its children)
        self.needs_inp = needs_inp     # ref / guard get the input dictionary as first value argument


NODES = {}


def _reg(*a, **k):
    n = Node(*a, **k)
    NODES[n.name] = n


def _t(*allowed, to=None):
    def f(t):
        if t in allowed:
            return to if to is not None else t
        return None
    return f


def _t2(table):
    return lambda t1, t2: table.get((t1, t2))


def _mmap(fn, v):
    return {k: fn(x) for k, x in v.items()} if isinstance(v, dict) else fn(v)


def _scalarish(t):           # E decays to a plain scalar under non-energy operations
    return "0" if t == "E" else t


def _ptw_typ(full):
    def f(t):
        if t in ("S", "0"):
            return t
        if t in ("E", "Em"):
            return "0"
        if full and t in ("Mu", "Muv"):
            return t
        return None
    return f


for _f in PTW_ALL:
    def _mk(f):
        base = f.split(":")[0]
        _reg("ptw:" + f, 1, _ptw_typ(f in ("exp", "tanh")),
             lambda E, e: e.ptw(base, *ptw_args(f, E.A)),
             lambda E, l: l.ptw(base, *ptw_args(f, E.A)),
             lambda E, xp, v: _mmap(lambda z: ptw_ref(f, xp, z, E.A), v),
             lambda E, v: [ptw_guard(f, z) for z in (v.values() if isinstance(v, dict) else [v])])
    _mk(_f)

_S0 = _t("S", "0")
_reg("neg", 1, _S0, lambda E, e: -e, lambda E, l: -l, lambda E, xp, v: -v)
_reg("smul:r", 1, _S0, lambda E, e: E.A["s"] * e, lambda E, l: E.A["s"] * l, lambda E, xp, v: E.A["s"] * v)
_reg("smul:c", 1, _S0, lambda E, e: E.A["sc"] * e, lambda E, l: E.A["sc"] * l, lambda E, xp, v: E.A["sc"] * v)
_reg("sdiv", 1, _S0, lambda E, e: e / E.A["s"], lambda E, l: l / E.A["s"], lambda E, xp, v: v / E.A["s"])
_reg("rdiv", 1, _S0, lambda E, e: E.A["s"] / e, lambda E, l: E.A["s"] / l, lambda E, xp, v: E.A["s"] / v,
     lambda E, v: ptw_guard("reciprocal", v))
_reg("sadd", 1, _S0, lambda E, e: e + E.A["s"], lambda E, l: l + E.A["s"], lambda E, xp, v: v + E.A["s"])
_reg("rsadd", 1, _S0, lambda E, e: E.A["s"] + e, lambda E, l: E.A["s"] + l, lambda E, xp, v: v + E.A["s"])
_reg("ssub", 1, _S0, lambda E, e: e - E.A["s"], lambda E, l: l - E.A["s"], lambda E, xp, v: v - E.A["s"])
_reg("rssub", 1, _S0, lambda E, e: E.A["s"] - e, lambda E, l: E.A["s"] - l, lambda E, xp, v: E.A["s"] - v)
_SS = _t("S")
_reg("fadd", 1, _SS, lambda E, e: e + E.cF, lambda E, l: l + E.cF, lambda E, xp, v: v + E.A["c"])
_reg("fsub", 1, _SS, lambda E, e: e - E.cF, lambda E, l: l - E.cF, lambda E, xp, v: v - E.A["c"])
_reg("rfsub", 1, _SS, lambda E, e: E.cF - e, lambda E, l: E.cF - l, lambda E, xp, v: E.A["c"] - v)
_reg("fmul", 1, _SS, lambda E, e: E.cF * e, lambda E, l: l * E.cF, lambda E, xp, v: E.A["c"] * v)
_reg("rfmul", 1, _SS, lambda E, e: e * E.cF, lambda E, l: E.cF * l, lambda E, xp, v: E.A["c"] * v)
_reg("spow", 1, _S0, lambda E, e: e ** 2, lambda E, l: l ** 2, lambda E, xp, v: v * v)
_reg("rpow", 1, _S0, lambda E, e: 2. ** e, lambda E, l: 2. ** l, lambda E, xp, v: xp.exp(v * np.log(2.)),
     lambda E, v: ptw_guard("exp", v))
_reg("mat", 1, _SS, lambda E, e: E.Mop @ e, lambda E, l: E.Mop(l), lambda E, xp, v: xp.asarray(E.A["M"]) @ v)
_reg("diag", 1, _SS, lambda E, e: E.Dop @ e, lambda E, l: E.Dop(l), lambda E, xp, v: E.A["dpos"] * v)
_reg("real", 1, _S0, lambda E, e: e.real, lambda E, l: l.real, lambda E, xp, v: xp.real(v))


def _need_cplx(E, v):
    if not _cplx(v):
        raise Outside("imaginary part of a real-typed value (Imaginizer rejects real input)")


_reg("imag", 1, _S0, lambda E, e: e.imag, lambda E, l: l.imag, lambda E, xp, v: xp.imag(v), _need_cplx)
_reg("conj", 1, _S0, lambda E, e: e.conjugate(), lambda E, l: l.conjugate(), lambda E, xp, v: xp.conj(v))
_reg("sum", 1, _t("S", to="0"), lambda E, e: e.sum(), lambda E, l: l.sum(), lambda E, xp, v: xp.sum(v))
_reg("integrate", 1, _t("S", to="0"), lambda E, e: e.integrate(), lambda E, l: l.integrate(),
     lambda E, xp, v: VOL * xp.sum(v))
_reg("vdotc", 1, _t("S", to="0"), lambda E, e: e.vdot(E.cF), lambda E, l: l.vdot(E.cF),
     lambda E, xp, v: xp.sum(xp.conj(v) * E.A["c"]))
def _adapt(E, l, key):
    # (Linearization.ducktape_left(str) looks at the Jacobian's *domain* and is not usable on a
    #  non-trivial Linearization; the adapter operator is the supported spelling)
    ift = E.ift
    return ift.FieldAdapter(ift.MultiDomain.make({key: E.S}), key)(l)


_reg("dl:u", 1, _t("S", to="Mu"), lambda E, e: e.ducktape_left("u"), lambda E, l: _adapt(E, l, "u"),
     lambda E, xp, v: {"u": v})
_reg("get:u", 1, _t("Mu", "Muv", to="S"), lambda E, e: e["u"], lambda E, l: l["u"], lambda E, xp, v: v["u"])
_reg("get:v", 1, _t("Muv", to="S"), lambda E, e: e["v"], lambda E, l: l["v"], lambda E, xp, v: v["v"])
_MUV = _t("Muv", to="S")
_reg("einsum", 1, _MUV, lambda E, e: E.obj("einsum") @ e, lambda E, l: E.obj("einsum")(l),
     lambda E, xp, v: v["u"] * v["v"])
_reg("einsum0", 1, _t("Muv", to="0"), lambda E, e: E.obj("einsum0") @ e, lambda E, l: E.obj("einsum0")(l),
     lambda E, xp, v: xp.sum(v["u"] * v["v"]))
_reg("jaxS", 1, _SS, lambda E, e: E.obj("jaxS") @ e, lambda E, l: E.obj("jaxS")(l),
     lambda E, xp, v: xp.sin(v) * v + 0.5 * v ** 2, lambda E, v: ptw_guard("sin", v))
_reg("jaxM", 1, _MUV, lambda E, e: E.obj("jaxM") @ e, lambda E, l: E.obj("jaxM")(l),
     lambda E, xp, v: v["u"] * xp.exp(v["v"]) + v["v"], lambda E, v: ptw_guard("exp", v["v"]))


# --- energies -----------------------------------------------------------------
def _need_real(E, v, lo=None, hi=None):
    v = np.asarray(v)
    if _cplx(v):
        raise Outside("real-valued likelihood on complex value")
    if lo is not None and not np.all(v >= lo):
        raise Outside("likelihood parameter outside its support")
    if hi is not None and not np.all(v <= hi):
        raise Outside("likelihood parameter outside its support")
    if np.abs(v).max(initial=0.) > 40.:
        raise Outside("argument too large")


def _energy(name, ref, guard, fisher, typ="E"):
    _reg(name, 1, _t("S", to=typ), lambda E, e: E.obj(name) @ e, lambda E, l: E.obj(name)(l), ref, guard)
    if fisher is not None:
        FISHER[name] = fisher


FISHER = {}      # name -> f(E, value) -> real diagonal of the Fisher metric (per real component if complex)


def _big(E, v):
    if np.abs(np.asarray(v)).max(initial=0.) > 40.:
        raise Outside("argument too large")


_energy("gauss_d", lambda E, xp, v: 0.5 * xp.sum(xp.real((v - E.A["d"]) * xp.conj(v - E.A["d"]))), _big,
        lambda E, v: np.ones(NPIX))
_energy("gauss_icov", lambda E, xp, v: 0.5 * xp.sum(E.A["dpos"] * xp.real(v * xp.conj(v))), _big,
        lambda E, v: E.A["dpos"])
_energy("gauss_d_icov", lambda E, xp, v: 0.5 * xp.sum(E.A["dpos"] * xp.real((v - E.A["d"]) * xp.conj(v - E.A["d"]))),
        _big, lambda E, v: E.A["dpos"])
_energy("poisson", lambda E, xp, v: xp.sum(v) - xp.sum(E.A["counts"] * xp.log(v)),
        lambda E, v: _need_real(E, v, .2), lambda E, v: 1. / v)
_energy("invgamma", lambda E, xp, v: xp.sum(0.5 * xp.log(v) + E.A["beta"] / v),
        lambda E, v: _need_real(E, v, .2), lambda E, v: 0.5 / v ** 2)
_energy("studentt", lambda E, xp, v: xp.sum((E.A["theta"] + 1.) / 2. * xp.log1p(v * v / E.A["theta"])),
        lambda E, v: _need_real(E, v), lambda E, v: np.full(NPIX, (E.A["theta"] + 1.) / (E.A["theta"] + 3.)))
_energy("bernoulli", lambda E, xp, v: -xp.sum(E.A["events"] * xp.log(v)) - xp.sum((1 - E.A["events"]) * xp.log(1. - v)),
        lambda E, v: _need_real(E, v, .05, .95), lambda E, v: 1. / (v * (1. - v)))
_energy("sqnorm", lambda E, xp, v: xp.sum(v * xp.conj(v)), _big, None, typ="0")
_energy("quadform", lambda E, xp, v: 0.5 * xp.sum(xp.conj(v) * (xp.asarray(E.A["Q"]) @ v)), _big, None, typ="0")


def _vcge_ref(E, xp, v):
    r, i = v["u"], v["v"]
    if E.cplx:
        return 0.5 * xp.sum(xp.real(xp.conj(r) * r) * xp.real(i)) - xp.sum(xp.log(i))
    return 0.5 * (xp.sum(r * r * i) - xp.sum(xp.log(i)))


def _vcge_guard(E, v):
    if E.cplx:
        if not _cplx(v["u"]) or _cplx(v["v"]):
            raise Outside("VariableCovarianceGaussianEnergy(complex) needs complex residual and real inverse covariance")
    else:
        _need_real(E, v["u"])
    _need_real(E, v["v"], .2)
    _big(E, v["u"])


_reg("vcge", 1, _t("Muv", to="E"), lambda E, e: E.obj("vcge") @ e, lambda E, l: E.obj("vcge")(l), _vcge_ref, _vcge_guard)
_reg("esmul", 1, _t("E"), lambda E, e: E.A["es"] * e, lambda E, l: E.A["es"] * l, lambda E, xp, v: E.A["es"] * v)
_reg("ham", 1, _t("E", to="H"),
     lambda E, e: E.ift.StandardHamiltonian(e, ic_samp=E.ift.GradientNormController(iteration_limit=2)),
     None, None, oponly=True)
# the same Hamiltonian without a sampling controller (its metric is a plain sum, its Linearization arithmetic differs)
_reg("ham0", 1, _t("E", to="H"), lambda E, e: E.ift.StandardHamiltonian(e), None, None, oponly=True)

# --- binary --------------------------------------------------------------------
_B = _t2({("S", "S"): "S", ("0", "0"): "0"})
_reg("add", 2, _B, lambda E, a, b: a + b, lambda E, a, b: a + b, lambda E, xp, a, b: a + b)
_reg("sub", 2, _B, lambda E, a, b: a - b, lambda E, a, b: a - b, lambda E, xp, a, b: a - b)
_reg("mul", 2, _B, lambda E, a, b: a * b, lambda E, a, b: a * b, lambda E, xp, a, b: a * b)
_reg("div", 2, _B, lambda E, a, b: a / b, lambda E, a, b: a / b, lambda E, xp, a, b: a / b,
     lambda E, a, b: ptw_guard("reciprocal", b))


def _pow_guard(E, a, b):
    ptw_guard("log", a)
    ptw_guard("exp", np.asarray(b) * np.log(a))


_reg("pow", 2, _B, lambda E, a, b: a ** b, lambda E, a, b: a ** b, lambda E, xp, a, b: xp.exp(b * xp.log(a)), _pow_guard)
_reg("vdot", 2, _t2({("S", "S"): "0"}), lambda E, a, b: a.vdot(b), lambda E, a, b: a.vdot(b),
     lambda E, xp, a, b: xp.sum(xp.conj(a) * b))
_reg("outer", 2, _t2({("S", "S"): "SS"}), None, lambda E, a, b: a.outer(b),
     lambda E, xp, a, b: a[:, None] * b[None, :], linonly=True)
_reg("pair", 2, _t2({("S", "S"): "Muv"}), lambda E, a, b: a.ducktape_left("u") + b.ducktape_left("v"),
     lambda E, a, b: _adapt(E, a, "u").unite(_adapt(E, b, "v")) if a.jac is None
     else _adapt(E, a, "u") + _adapt(E, b, "v"),
     lambda E, xp, a, b: {"u": a, "v": b})


def _madd_ref(E, xp, a, b):
    r = dict(a)
    for k, v in b.items():
        r[k] = r[k] + v if k in r else v
    return r


_reg("madd", 2, _t2({("Mu", "Mu"): "Mu", ("Muv", "Muv"): "Muv", ("Muv", "Mu"): "Muv", ("Mu", "Muv"): "Muv"}),
     lambda E, a, b: a + b, lambda E, a, b: a.unite(b) if a.jac is None else a + b, _madd_ref)
_reg("mmul", 2, _t2({("Mu", "Mu"): "Mu", ("Muv", "Muv"): "Muv"}),
     lambda E, a, b: a * b, lambda E, a, b: a * b, lambda E, xp, a, b: {k: a[k] * b[k] for k in a})
_reg("eadd", 2, _t2({("E", "E"): "E"}), lambda E, a, b: a + b, lambda E, a, b: a + b, lambda E, xp, a, b: a + b)

# wrappers that change the input of their subtree (handled in the interpreters)
WRAP_PRE = {"pre:exp": "exp", "pre:tanh": "tanh"}
LEAVES = {"x": ["x", "Lx"], "ab": ["a", "b", "La"], "abc": ["a", "b", "c", "La"]}
LEAFKEY = {"x": "x", "Lx": "x", "a": "a", "b": "b", "c": "c", "La": "a"}


class XLeaf:
    """Composite leaf: a library operator living directly on several input keys (registered by drivers)."""

    def __init__(self, name, keys, typ, op, ref, guard=None, metric=None):
        self.name, self.keys, self.typ, self.op, self.ref, self.guard, self.metric = \
            name, set(keys), typ, op, ref, guard, metric


XLEAVES = {}
METRIC_HOOKS = {}      # node name -> f(E, root, path, inp, keys, cplx) -> reference metric


def leaf_type(l):
    return XLEAVES[l].typ if l in XLEAVES else "S"


def is_leaf(t):
    return isinstance(t, str)


def tree_keys(t):
    if is_leaf(t):
        return set(XLEAVES[t].keys) if t in XLEAVES else {LEAFKEY[t]}
    if t[0] == "dtape:a":
        return {"a"}
    r = set(NODES[t[0]].keys) if t[0] in NODES else set()
    for c in t[1:]:
        r |= tree_keys(c)
    return r


def wrap_type(ty):
    """ptw_pre / ducktape turn a likelihood into a plain operator chain: it still carries its metric ("Em")
    but is no LikelihoodEnergyOperator any more (cannot be summed with one / put into a Hamiltonian)"""
    return "Em" if ty in ("E", "H", "Em") else ty


def tree_type(t):
    if is_leaf(t):
        return leaf_type(t)
    if t[0] in WRAP_PRE or t[0] == "dtape:a":
        return wrap_type(tree_type(t[1]))
    n = NODES[t[0]]
    return n.typ(*[tree_type(c) for c in t[1:]])


def tree_size(t):
    return 0 if is_leaf(t) else 1 + sum(tree_size(c) for c in t[1:])


def tree_depth(t):
    return 0 if is_leaf(t) else 1 + max(tree_depth(c) for c in t[1:])


def tree_ops(t):
    if is_leaf(t):
        return []
    r = [t[0]]
    for c in t[1:]:
        r += tree_ops(c)
    return r


def tree_str(t):
    if is_leaf(t):
        return t
    return "%s(%s)" % (t[0], ",".join(tree_str(c) for c in t[1:]))


def has_flag(t, flag):
    if is_leaf(t):
        return False
    n = NODES.get(t[0])
    if n is not None and getattr(n, flag):
        return True
    return any(has_flag(c, flag) for c in t[1:])


def subtree(t, path):
    for i in path:
        t = t[i]
    return t


# ---------------------------------------------------------------- enumeration
def enumerate_trees(leaves, unary, binary, max_size, max_depth=None, wrappers=()):
    """ALL well-typed trees with at most max_size operator nodes (and depth <= max_depth) over the alphabets.
    Returns {size: [tree, ...]}."""
    by = {0: [(l, leaf_type(l), 0) for l in leaves]}          # (tree, type, depth)
    for s in range(1, max_size + 1):
        cur = []
        for t, ty, d in by[s - 1]:
            if max_depth is not None and d + 1 > max_depth:
                continue
            for u in unary:
                r = NODES[u].typ(ty)
                if r is not None:
                    cur.append(([u, t], r, d + 1))
            for w in wrappers:
                if ty != "SS":
                    cur.append(([w, t], wrap_type(ty), d + 1))
        for s1 in range(0, s):
            s2 = s - 1 - s1
            for t1, ty1, d1 in by[s1]:
                for t2, ty2, d2 in by[s2]:
                    d = 1 + max(d1, d2)
                    if max_depth is not None and d > max_depth:
                        continue
                    for b in binary:
                        r = NODES[b].typ(ty1, ty2)
                        if r is not None:
                            cur.append(([b, t1, t2], r, d))
        by[s] = cur
    return {s: [t for t, _, _ in v] for s, v in by.items()}


# ---------------------------------------------------------------- interpreters
def build_op(t, E):
    ift = E.ift
    if is_leaf(t):
        if t in XLEAVES:
            return XLEAVES[t].op(E)
        if t == "x":
            return ift.ScalingOperator(E.S, 1.)
        if t == "Lx":
            return E.Mop
        ad = ift.ScalingOperator(E.S, 1.).ducktape(LEAFKEY[t])
        return E.Mop @ ad if t == "La" else ad
    name = t[0]
    if name in WRAP_PRE:
        return build_op(t[1], E).ptw_pre(WRAP_PRE[name])
    if name == "dtape:a":
        return build_op(t[1], E).ducktape("a")
    n = NODES[name]
    return n.op(E, *[build_op(c, E) for c in t[1:]])


def lin_eval(t, E, inp):
    """inp: Field / MultiField / Linearization over the root's domain."""
    if is_leaf(t):
        if t in XLEAVES:
            op = XLEAVES[t].op(E)
            return op(inp.extract(op.domain) if inp.jac is None else _restrict_lin(E, inp, op.domain))
        if t == "x":
            return inp
        if t == "Lx":
            return E.Mop(inp)
        v = inp[LEAFKEY[t]]
        return E.Mop(v) if t == "La" else v
    name = t[0]
    if name in WRAP_PRE:
        return lin_eval(t[1], E, inp.ptw(WRAP_PRE[name]))
    if name == "dtape:a":
        return lin_eval(t[1], E, inp["a"])
    n = NODES[name]
    if n.oponly:       # no Linearization-level spelling: apply the operator built for this subtree
        op = build_op(t, E)
        return op(inp.extract(op.domain) if inp.jac is None else _restrict_lin(E, inp, op.domain))
    return n.lin(E, *[lin_eval(c, E, inp) for c in t[1:]])


def _restrict_lin(E, lin, dom):
    if lin.domain is dom and lin.target is dom:
        return lin
    ift = E.ift
    if not isinstance(lin.target, ift.MultiDomain):
        return lin
    ex = ift.PartialExtractor(lin.target, dom)
    return ex(lin)


def ref_eval(t, E, xp, inp, guard):
    """inp: {key: array}.  Returns array / dict of arrays."""
    if is_leaf(t):
        if t in XLEAVES:
            if guard and XLEAVES[t].guard is not None:
                XLEAVES[t].guard(E, inp)
            return XLEAVES[t].ref(E, xp, inp)
        v = inp[LEAFKEY[t]]
        return xp.asarray(E.A["M"]) @ v if t in ("La", "Lx") else v
    name = t[0]
    if name in WRAP_PRE:
        f = WRAP_PRE[name]
        if guard:
            for k in tree_keys(t[1]):
                ptw_guard(f, inp[k])
        return ref_eval(t[1], E, xp, {k: ptw_ref(f, xp, v, E.A) for k, v in inp.items()}, guard)
    if name == "dtape:a":
        return ref_eval(t[1], E, xp, {"x": inp["a"]}, guard)
    if name in ("ham", "ham0"):
        v = ref_eval(t[1], E, xp, inp, guard)
        pr = 0.
        for k in sorted(tree_keys(t[1])):
            pr = pr + 0.5 * xp.sum(xp.real(inp[k] * xp.conj(inp[k])))
        return v + pr
    n = NODES[name]
    vals = [ref_eval(c, E, xp, inp, guard) for c in t[1:]]
    if n.needs_inp:
        vals = [inp] + vals
    if guard and n.guard is not None:
        n.guard(E, *vals)
    r = n.ref(E, xp, *vals)
    if guard:
        for z in (r.values() if isinstance(r, dict) else [r]):
            z = np.asarray(z)
            if not np.all(np.isfinite(z)) or np.abs(z).max(initial=0.) > 1e6:
                raise Outside("value not finite / too large")
    return r


def ref_sub(t, path, E, xp, inp, guard=False):
    """value of the node at `path` as a function of the ROOT input (input-changing wrappers on the way applied)"""
    if not path:
        return ref_eval(t, E, xp, inp, guard)
    name = t[0]
    if name in WRAP_PRE:
        inp = {k: ptw_ref(WRAP_PRE[name], xp, v, E.A) for k, v in inp.items()}
    elif name == "dtape:a":
        inp = {"x": inp["a"]}
    return ref_sub(t[path[0]], path[1:], E, xp, inp, guard)


def ref_env(t, path, E, xp, inp):
    """the input dictionary seen by the node at `path`"""
    for i in path:
        name = t[0]
        if name in WRAP_PRE:
            inp = {k: ptw_ref(WRAP_PRE[name], xp, v, E.A) for k, v in inp.items()}
        elif name == "dtape:a":
            inp = {"x": inp["a"]}
        t = t[i]
    return inp


def flat(v, xp=np):
    if isinstance(v, dict):
        return xp.concatenate([xp.reshape(v[k], (-1,)) for k in sorted(v)])
    return xp.reshape(v, (-1,))


def ref_jacobian(fn, inp, keys, cplx):
    """Real-ified Jacobian (2m x nin) of fn: {key: array} -> value, by jax.jacfwd, nin = n or 2n."""
    import jax
    import jax.numpy as jnp
    sizes = [np.asarray(inp[k]).size for k in keys]
    n = sum(sizes)
    z0 = np.concatenate([np.asarray(inp[k]).reshape(-1) for k in keys])
    u0 = np.concatenate([z0.real, z0.imag]) if cplx else z0.real.astype(np.float64)

    def g(u):
        z = u[:n] + 1j * u[n:] if cplx else u
        d, off = {}, 0
        for k, s in zip(keys, sizes):
            d[k] = z[off:off + s]
            off += s
        w = flat(fn(d, jnp), jnp)
        return jnp.concatenate([jnp.real(w), jnp.imag(w)])
    return np.asarray(jax.jacfwd(g)(jnp.asarray(u0)))


def ref_metric(t, E, inp, keys, cplx, path=(), root=None):
    """Reference metric (nin x nin, real-ified) of an E/H-typed tree: sum over likelihood nodes of
    J^T F J with J the (autodiff) Jacobian of the likelihood's argument and F its closed-form Fisher metric."""
    root = t if root is None else root
    node = subtree(root, path)
    if is_leaf(node):
        return XLEAVES[node].metric(E, root, path, inp, keys, cplx)
    name = node[0]
    if name in METRIC_HOOKS:
        return METRIC_HOOKS[name](E, root, path, inp, keys, cplx)
    nin = sum(np.asarray(inp[k]).size for k in keys) * (2 if cplx else 1)
    if name in WRAP_PRE or name == "dtape:a":
        return ref_metric(t, E, inp, keys, cplx, path + (1,), root)
    if name == "eadd":
        return (ref_metric(t, E, inp, keys, cplx, path + (1,), root) +
                ref_metric(t, E, inp, keys, cplx, path + (2,), root))
    if name == "esmul":
        return E.A["es"] * ref_metric(t, E, inp, keys, cplx, path + (1,), root)
    if name in ("ham", "ham0"):
        # the prior 0.5 x^dagger x acts on the Hamiltonian's OWN input (changed by wrappers above it)
        hk = sorted(tree_keys(node[1]))
        Jin = ref_jacobian(lambda d, xp: {k: ref_env(root, path, E, xp, d)[k] for k in hk}, inp, keys, cplx)
        return ref_metric(t, E, inp, keys, cplx, path + (1,), root) + Jin.T @ Jin
    cpath = path + (1,)
    val = ref_sub(root, cpath, E, np, inp)
    J = ref_jacobian(lambda d, xp: ref_sub(root, cpath, E, xp, d), inp, keys, cplx)
    if name == "vcge":
        i = np.real(val["v"])
        fct = 1. if E.cplx else 0.5
        Fu = np.concatenate([i, fct / i ** 2])
        Fr = np.concatenate([Fu, np.concatenate([i, np.zeros(NPIX)])])
    else:
        F = np.asarray(FISHER[name](E, np.real(val) if not _cplx(val) else val), dtype=float).real
        Fr = np.concatenate([F, F])
    return J.T @ (Fr[:, None] * J)


# ---------------------------------------------------------------- dense Jacobians of library objects
def _unit(dom, j, n, cplx_dtype):
    from vf import dense
    v = np.zeros(n, dtype=np.complex128 if cplx_dtype else np.float64)
    if j < n:
        v[j] = 1.
    else:
        v[j - n] = 1j
    return dense.unflatten(dom, v)


def _units_mixed(dom, key_cplx):
    """unit vectors of a MultiDomain whose keys have their own dtype: real units of every key (key order),
    then imaginary units of the complex keys only"""
    import nifty.cl as ift
    keys = list(dom.keys())

    def mk(hot, val):
        d = {}
        for k in keys:
            a = np.zeros(dom[k].shape, dtype=np.complex128 if key_cplx[k] else np.float64).reshape(-1)
            if hot is not None and hot[0] == k:
                a[hot[1]] = val
            d[k] = ift.makeField(dom[k], a.reshape(dom[k].shape))
        return ift.MultiField.from_dict(d, dom)
    out = [mk((k, i), 1.) for k in keys for i in range(dom[k].size)]
    out += [mk((k, i), 1j) for k in keys if key_cplx[k] for i in range(dom[k].size)]
    return out


def dense_apply(fn, din, dout, cplx_in):
    """Matrix (2m x nin) of the real-linear map fn: din -> dout on unit vectors whose dtype matches the
    dtype of the point (real unit vectors only for a real point)."""
    from vf import dense
    n, m = dense.dom_size(din), dense.dom_size(dout)
    if isinstance(cplx_in, dict):
        units = _units_mixed(din, cplx_in)
    else:
        units = [_unit(din, j, n, cplx_in) for j in range(2 * n if cplx_in else n)]
    nin = len(units)
    R = np.zeros((2 * m, nin))
    for j in range(nin):
        y = dense.flatten(fn(units[j]))
        if y.shape != (m,):
            raise AssertionError("output size %s != %d" % (y.shape, m))
        R[:m, j] = y.real
        R[m:, j] = y.imag
    return R


def field_is_complex(f):
    import nifty.cl as ift
    if isinstance(f, ift.MultiField):
        return any(np.issubdtype(f[k].dtype, np.complexfloating) for k in f.keys())
    return bool(np.issubdtype(f.dtype, np.complexfloating))
