"""Reference side of C33: pytree specs, their enumeration, numpy values and FLAT-ARRAY semantics.

A pytree is described by a JSON spec
    ["L", dtype, shape]            leaf  (dtype in f8 / c16 / i8 / b1)
    ["D", {key: spec}]             dict
    ["T", [spec, ...]]             tuple
    ["Li", [spec, ...]]            list
The oracle never touches jax: `flat(spec, values)` concatenates the leaves (dict keys sorted, sequences in order)
into ONE numpy vector; every library operation is compared with plain numpy on these flat vectors.
"""
import itertools

import numpy as np

NPDT = dict(f8=np.float64, c16=np.complex128, i8=np.int64, b1=np.bool_)
KINDS = ("D", "T", "Li")


# ------------------------------------------------------------------ structure enumeration
def _container(kind, children, path):
    if kind == "D":
        # keys chosen so that insertion order != sorted order (jax sorts dict keys)
        names = ["q", "b", "m"]
        return ["D", {names[i]: c for i, c in enumerate(children)}]
    return [kind, list(children)]


def structures(max_leaves=3):
    """All nestings of depth <= 2 of {dict, tuple, list} with 1..max_leaves leaves (leaves are placeholders None),
    plus the bare leaf.  -> list of (n_leaves, spec)"""
    out = [(1, None)]
    # children patterns: each child is a leaf "L" or a depth-1 container (kind, j leaves)
    child_opts = [("L", 1)] + [((k, j), j) for k in KINDS for j in range(1, max_leaves + 1)]
    for top in KINDS:
        for nchild in range(1, max_leaves + 1):
            for combo in itertools.product(child_opts, repeat=nchild):
                n = sum(c[1] for c in combo)
                if n > max_leaves:
                    continue
                ch = []
                for c, _ in combo:
                    ch.append(None if c == "L" else _container(c[0], [None] * c[1], None))
                out.append((n, _container(top, ch, None)))
    out.sort(key=lambda t: (t[0], _depth(t[1]), repr(t[1])))
    return out


def _depth(s):
    if s is None or s[0] == "L":
        return 0
    ch = s[1].values() if s[0] == "D" else s[1]
    return 1 + max(_depth(c) for c in ch)


def fill_types(s, types):
    """replace the placeholders (in flatten order) by leaf specs taken cyclically from `types`"""
    it = itertools.cycle(types)

    def rec(x):
        if x is None:
            d, sh = next(it)
            return ["L", d, list(sh)]
        if x[0] == "D":
            return ["D", {k: rec(v) for k, v in _sorted_items(x[1])}]
        return [x[0], [rec(c) for c in x[1]]]
    return rec(s)


def _sorted_items(d):
    return [(k, d[k]) for k in sorted(d)]


def leaves(s):
    """leaf specs in flatten order (dict keys sorted)"""
    if s[0] == "L":
        return [s]
    if s[0] == "D":
        return [l for k, v in _sorted_items(s[1]) for l in leaves(v)]
    return [l for c in s[1] for l in leaves(c)]


def n_leaves(s):
    return len(leaves(s))


def describe(s):
    if s[0] == "L":
        return "%s%s" % (s[1], tuple(s[2]))
    if s[0] == "D":
        return "{" + ",".join("%s:%s" % (k, describe(v)) for k, v in s[1].items()) + "}"
    o, c = ("(", ")") if s[0] == "T" else ("[", "]")
    return o + ",".join(describe(c_) for c_ in s[1]) + c


def shape_only(s):
    """structure label without dtypes/shapes (for outcome labels)"""
    if s[0] == "L":
        return "."
    if s[0] == "D":
        return "{" + "".join(shape_only(v) for v in s[1].values()) + "}"
    o, c = ("(", ")") if s[0] == "T" else ("[", "]")
    return o + "".join(shape_only(c_) for c_ in s[1]) + c


# ------------------------------------------------------------------ values
def values(s, seed, variant, mode="generic"):
    """list of numpy arrays, one per leaf (flatten order).  mode: generic (+-[0.5,2]) | positive | shift (ints 0..3)"""
    rng = np.random.default_rng([3300, int(seed), int(variant)])
    out = []
    for _, d, sh in leaves(s):
        sh = tuple(sh)

        def real():
            v = rng.uniform(0.5, 2.0, sh)
            if mode == "generic":
                v = v * rng.choice([-1., 1.], sh)
            return np.round(v, 3)
        if d == "f8":
            a = real()
        elif d == "c16":
            a = real() + 1j * real()
        elif d == "i8":
            if mode == "shift":
                a = rng.integers(0, 4, sh)
            else:
                a = rng.integers(1, 8, sh)
                if mode == "generic":
                    a = a * rng.choice([-1, 1], sh)
        elif d == "b1":
            a = rng.integers(0, 2, sh).astype(bool)
        else:
            raise ValueError(d)
        out.append(np.asarray(a, dtype=NPDT[d]).reshape(sh))
    return out


def flat(vals):
    """THE flat-array semantics: one 1-d numpy vector (numpy promotes mixed dtypes)"""
    return np.concatenate([np.asarray(v).reshape(-1) for v in vals]) if len(vals) else np.zeros(0)


def build(s, vals, leaf=lambda a: a):
    """python container tree with leaf(arrays)"""
    it = iter(vals)

    def rec(x):
        if x[0] == "L":
            return leaf(next(it))
        if x[0] == "D":
            # build in NON-sorted insertion order while consuming values in sorted order
            items = {k: None for k in x[1]}
            for k, v in _sorted_items(x[1]):
                items[k] = rec(v)
            return {k: items[k] for k in reversed(list(x[1]))}
        seq = [rec(c) for c in x[1]]
        return tuple(seq) if x[0] == "T" else seq
    return rec(s)


def unbuild(s, tree, unwrap=None):
    """leaves of a library result in MY flatten order, checking the container types on the way.
    Raises StructureError when `tree` does not have the structure of `s`."""
    out = []

    def rec(x, t, path):
        if unwrap is not None:
            t = unwrap(t)
        if x[0] == "L":
            if isinstance(t, (dict, tuple, list)):
                raise StructureError("container %s where a leaf is expected at %s" % (type(t).__name__, path))
            out.append(t)
            return
        if x[0] == "D":
            if not isinstance(t, dict) or sorted(t) != sorted(x[1]):
                raise StructureError("expected dict with keys %s at %s, got %r" % (sorted(x[1]), path, _short(t)))
            for k, v in _sorted_items(x[1]):
                rec(v, t[k], path + "/" + k)
            return
        want = tuple if x[0] == "T" else list
        if not isinstance(t, want) or len(t) != len(x[1]):
            raise StructureError("expected %s of %d at %s, got %r" % (want.__name__, len(x[1]), path, _short(t)))
        for i, c in enumerate(x[1]):
            rec(c, t[i], path + "/%d" % i)
    rec(s, tree, "")
    return out


def _short(t):
    r = repr(t)
    return r if len(r) < 80 else r[:77] + "..."


class StructureError(Exception):
    pass


def split_like(vals, flatvec):
    """cut a flat vector into arrays shaped like `vals`"""
    out, k = [], 0
    for v in vals:
        n = int(np.size(v))
        out.append(np.asarray(flatvec[k:k + n]).reshape(np.shape(v)))
        k += n
    return out


def kind(dt):
    return np.dtype(dt).kind if np.dtype(dt).kind != "u" else "i"
