"""Straight-line programs for C05 and their numpy transliteration.

A program is a list of terms; operands are indices: 0..nL-1 = leaves (by
position in the leaf list of the case), nL+k = term k.  Terms:
    ["add", i, j]   operand_i + operand_j
    ["mul", i, j]   operand_i * operand_j      (point-wise product)
    ["lin", name, i]  LIN[name] @ operand_i    (a fixed linear operator object, shared between uses)
The operator of the program is its last term (or, for an empty program, the
single leaf).  A term may be reused any number of times: this is what creates
shared sub-trees (same object); a leaf used twice is a shared leaf.

Input vector of the reference model: x = (a0, a1, b0, c0, c1)  [keys a, c: 2 pixels, key b: 1 pixel].
Leaves U and V apply ONE UniformOperator object to the keys a and c (same operator object on different inputs).
"""
import itertools

import numpy as np

LEAVES = ("X", "A", "E", "G", "B")
LEAF_KEYS = dict(X="a", A="a", E="a", G="a", B="b", U="a", V="c")
NX = 5
KEY_COLS = dict(a=[0, 1], b=[2], c=[3, 4])
# leaves that are linear operators (a sum of two of them is folded into a SumOperator, no _OpSum node)
LEAF_LINEAR = dict(X=True, A=True, E=False, G=False, B=False, U=False, V=False)
LINS = ("S3", "D4")


def numbers(seed):
    rng = np.random.default_rng(4242 + int(seed))

    def vals(n):
        return np.round(rng.uniform(0.5, 1.6, n) * rng.choice([-1., 1.], n), 3)
    return dict(d1=vals(2), d2=vals(2), d3=vals(2), d4=vals(2), s3=float(np.round(rng.uniform(1.5, 3.), 3)),
                grid=np.round(np.array([-0.7, 0.2, 1.1]) + rng.uniform(-0.05, 0.05, 3), 3))


# ------------------------------------------------------------------ enumeration
def canonical(leaves, prog):
    """Canonical string of the expression DAG rooted at the last term (sharing of term objects encoded by
    back-references; unused terms do not appear).  Two programs with the same string build the same object graph."""
    nL = len(leaves)
    seen = {}

    def rec(i):
        if i < nL:
            return leaves[i]
        k = i - nL
        if k in seen:
            return "#%d" % seen[k]
        t = prog[k]
        if t[0] == "lin":
            s = "%s@(%s)" % (t[1], rec(t[2]))
        else:
            s = "(%s %s %s)" % (rec(t[1]), "+" if t[0] == "add" else "*", rec(t[2]))
        seen[k] = len(seen)        # numbered in completion order
        return s + "=#%d" % seen[k]
    if not prog:
        return leaves[0]
    return rec(nL + len(prog) - 1)


def used_all(nL, prog):
    used = set()
    for t in prog:
        for o in (t[1:] if t[0] != "lin" else t[2:]):
            if o >= nL:
                used.add(o - nL)
    return all(k in used for k in range(len(prog) - 1))


def enumerate_programs(leaves, lins, max_len):
    """All programs with <= max_len terms over `leaves` in which every term is used; de-duplicated by their
    canonical DAG.  Returns list of (length, canonical, leaf alphabet, prog) simplest first."""
    nL = len(leaves)
    out, seen = [], set()
    for lf in leaves:
        out.append((0, lf, [lf], []))     # the single-leaf 'program': alphabet [lf], no terms

    def terms(n_operands):
        ts = []
        for i, j in itertools.product(range(n_operands), repeat=2):
            ts.append(["add", i, j])
            ts.append(["mul", i, j])
        for nm in lins:
            for i in range(n_operands):
                ts.append(["lin", nm, i])
        return ts

    def rec(prog):
        if prog and used_all(nL, prog):
            c = canonical(leaves, prog)
            if c not in seen:
                seen.add(c)
                out.append((len(prog), c, list(leaves), [list(t) for t in prog]))
        if len(prog) == max_len:
            return
        for t in terms(nL + len(prog)):
            prog.append(t)
            rec(prog)
            prog.pop()
    rec([])
    out.sort(key=lambda x: (x[0], len(x[1]), x[1]))
    return out


# ------------------------------------------------------------------ numpy transliteration (value + Jacobian)
def _sigmoid(z):
    """NIFTy's `sigmoid` is 0.5 + 0.5 tanh(z) (nifty/cl/pointwise.py), derivative 0.5 - 0.5 tanh(z)^2."""
    return 0.5 + 0.5 * np.tanh(z)


def ref_leaf(name, x, num):
    """(value (2,), Jacobian (2,5)) of a leaf at x = (a0, a1, b0, c0, c1)."""
    a, b, c = x[:2], x[2], x[3:5]
    Ja = np.hstack([np.eye(2), np.zeros((2, 3))])
    if name in ("U", "V"):
        from scipy.stats import norm
        z = a if name == "U" else c
        Jz = Ja if name == "U" else np.hstack([np.zeros((2, 3)), np.eye(2)])
        return 0.5 + 1.5 * norm.cdf(z), (1.5 * norm.pdf(z))[:, None] * Jz
    if name == "X":
        return a.copy(), Ja
    if name == "A":
        return num["d1"] * a, num["d1"][:, None] * Ja
    if name == "E":
        return np.exp(a), np.exp(a)[:, None] * Ja
    if name == "G":
        return num["d2"] * np.exp(a), (num["d2"] * np.exp(a))[:, None] * Ja
    if name == "B":
        s = _sigmoid(num["d3"] * b)
        J = np.zeros((2, NX))
        J[:, 2] = (0.5 - 0.5 * np.tanh(num["d3"] * b) ** 2) * num["d3"]
        return s, J
    raise ValueError(name)


def ref_program(leaves, prog, x, num):
    vals = [ref_leaf(lf, x, num) for lf in leaves]
    if not prog:
        return vals[0]
    for t in prog:
        if t[0] == "lin":
            v, J = vals[t[2]]
            d = num["s3"] * np.ones(2) if t[1] == "S3" else num["d4"]
            vals.append((d * v, d[:, None] * J))
        else:
            (v1, J1), (v2, J2) = vals[t[1]], vals[t[2]]
            if t[0] == "add":
                vals.append((v1 + v2, J1 + J2))
            else:
                vals.append((v1 * v2, v2[:, None] * J1 + v1[:, None] * J2))
    return vals[-1]


def keys_used(leaves, prog):
    """Keys of the domain of the program's operator (leaves reachable from the last term)."""
    nL = len(leaves)
    if not prog:
        return {LEAF_KEYS[leaves[0]]}
    keys = set()

    def rec(i):
        if i < nL:
            keys.add(LEAF_KEYS[leaves[i]])
            return
        t = prog[i - nL]
        for o in (t[1:] if t[0] != "lin" else t[2:]):
            rec(o)
    rec(nL + len(prog) - 1)
    return keys
