"""Reference model for C06: Field / MultiField arithmetic and contractions.

Everything here is plain numpy on raw arrays with EXPLICIT per-axis volume
arrays that are written down from closed forms (never read from the library):

  RG      prod(distances) on every pixel
  HP      4 pi / (12 nside^2)
  GL      Gauss-Legendre weight of the ring * 2 pi / nlon   (numpy leggauss)
  LM      1
  Power   (number of harmonic-partner pixels falling into the bin) * partner pixel volume,
          bins = distinct |k| values of the partner grid (own O(N) computation)
  DOF     the weights given to the constructor
  Unstructured  no volume at all (volume operations are outside the premise)

No nifty import at module level (`build_sub` imports it lazily).
"""
import itertools

import numpy as np

# name -> (kind, constructor args)
SUB = {
    "RG2":   ("rg", dict(shape=(2,), distances=(0.3,), harmonic=False)),
    "RG3d":  ("rg", dict(shape=(3,), distances=(1.5,), harmonic=False)),
    "RG23":  ("rg", dict(shape=(2, 3), distances=(0.5, 0.7), harmonic=False)),
    "RGh3":  ("rg", dict(shape=(3,), distances=(0.4,), harmonic=True)),
    "RG2def": ("rgdef", dict(shape=(2,))),            # default distances 1/N (total volume 1)
    "HP1":   ("hp", dict(nside=1)),
    "GL32":  ("gl", dict(nlat=3, nlon=2)),
    "GL23":  ("gl", dict(nlat=2, nlon=3)),
    "GL41":  ("gl", dict(nlat=4, nlon=1)),
    "LM1":   ("lm", dict(lmax=1)),
    "LM21":  ("lm", dict(lmax=2, mmax=1)),
    "PSrg4": ("ps_rg", dict(shape=(4,), distances=(0.3,))),
    "PSrg32": ("ps_rg", dict(shape=(3, 2), distances=(0.4, 0.6))),
    "PSlm2": ("ps_lm", dict(lmax=2)),
    "DOF3":  ("dof", dict(weights=(1., 2., 4.))),
    "U2":    ("un", dict(shape=(2,))),
    "U12":   ("un", dict(shape=(1, 2))),
    "U3":    ("un", dict(shape=(3,))),
}


def build_sub(name):
    """The nifty domain object for an alphabet name (library side)."""
    import nifty.cl as ift
    kind, a = SUB[name]
    if kind == "rg":
        return ift.RGSpace(a["shape"], distances=a["distances"], harmonic=a["harmonic"])
    if kind == "rgdef":
        return ift.RGSpace(a["shape"])
    if kind == "hp":
        return ift.HPSpace(a["nside"])
    if kind == "gl":
        return ift.GLSpace(a["nlat"], a["nlon"])
    if kind == "lm":
        return ift.LMSpace(a["lmax"], a.get("mmax"))
    if kind == "ps_rg":
        return ift.PowerSpace(ift.RGSpace(a["shape"], distances=a["distances"], harmonic=True))
    if kind == "ps_lm":
        return ift.PowerSpace(ift.LMSpace(a["lmax"]))
    if kind == "dof":
        return ift.DOFSpace(np.array(a["weights"]))
    if kind == "un":
        return ift.UnstructuredDomain(a["shape"])
    raise KeyError(name)


def _power_rg_volumes(shape, distances):
    # harmonic partner = RG grid with pixel volume prod(distances); |k| of pixel j along an axis
    # is min(j, n-j)*distance; bins = distinct |k| (natural binning); volume = count * pixel volume
    ks = np.zeros(shape)
    for ax, (n, d) in enumerate(zip(shape, distances)):
        j = np.arange(n)
        k1 = np.minimum(j, n - j) * d
        sh = [1] * len(shape)
        sh[ax] = n
        ks = ks + (k1.reshape(sh)) ** 2
    ks = np.sqrt(ks).ravel()
    rounded = np.round(ks, 9)
    uniq = np.unique(rounded)
    counts = np.array([(rounded == u).sum() for u in uniq], dtype=np.float64)
    return counts * float(np.prod(distances))


def sub_shape(name):
    kind, a = SUB[name]
    if kind in ("rg", "rgdef", "un"):
        return tuple(a["shape"])
    if kind == "hp":
        return (12 * a["nside"] ** 2,)
    if kind == "gl":
        return (a["nlat"] * a["nlon"],)
    if kind == "lm":
        l = a["lmax"]
        m = a.get("mmax")
        m = l if m is None else m
        # m = 0: l+1 real coefficients; every m > 0: (l+1-m) complex ones stored as 2 reals
        return (l + 1 + 2 * sum(l + 1 - mm for mm in range(1, m + 1)),)
    if kind == "ps_rg":
        return _power_rg_volumes(a["shape"], a["distances"]).shape
    if kind == "ps_lm":
        return (a["lmax"] + 1,)
    if kind == "dof":
        return (len(a["weights"]),)
    raise KeyError(name)


def sub_vol(name):
    """float64 array of pixel volumes with the sub-domain's shape; None = the domain has no volume."""
    kind, a = SUB[name]
    sh = sub_shape(name)
    if kind == "rg":
        return np.full(sh, float(np.prod(a["distances"])))
    if kind == "rgdef":
        return np.full(sh, float(np.prod([1. / n for n in sh])))
    if kind == "hp":
        return np.full(sh, 4 * np.pi / sh[0])
    if kind == "gl":
        w = np.polynomial.legendre.leggauss(a["nlat"])[1] * 2 * np.pi / a["nlon"]
        return np.repeat(w, a["nlon"])
    if kind == "lm":
        return np.ones(sh)
    if kind == "ps_rg":
        return _power_rg_volumes(a["shape"], a["distances"])
    if kind == "ps_lm":
        return np.array([2. * l + 1 for l in range(a["lmax"] + 1)])
    if kind == "dof":
        return np.array(a["weights"], dtype=np.float64)
    if kind == "un":
        return None
    raise KeyError(name)


def sub_uniform(name):
    """The library's notion: the domain CLASS has one volume for all pixels (RG, HP, LM)."""
    return SUB[name][0] in ("rg", "rgdef", "hp", "lm")


class RefDomain:
    """Reference twin of a DomainTuple: names, shape, axes of each space, volumes."""

    def __init__(self, names):
        self.names = tuple(names)
        self.shapes = [sub_shape(n) for n in self.names]
        self.shape = tuple(itertools.chain(*self.shapes))
        self.size = int(np.prod(self.shape, dtype=int))
        self.axes = []
        k = 0
        for s in self.shapes:
            self.axes.append(tuple(range(k, k + len(s))))
            k += len(s)
        self.vols = [sub_vol(n) for n in self.names]

    def norm_spaces(self, spaces):
        if spaces is None:
            return tuple(range(len(self.names)))
        if isinstance(spaces, int):
            return (spaces,)
        return tuple(spaces)

    def has_volume(self, spaces):
        return all(self.vols[i] is not None for i in self.norm_spaces(spaces))

    def uniform(self, spaces):
        return all(sub_uniform(self.names[i]) for i in self.norm_spaces(spaces))

    def volarr(self, spaces):
        """Volume factor of the selected spaces, broadcastable to self.shape (float64)."""
        V = np.ones((1,) * len(self.shape))
        for i in self.norm_spaces(spaces):
            sh = [1] * len(self.shape)
            for ax, n in zip(self.axes[i], self.shapes[i]):
                sh[ax] = n
            V = V * self.vols[i].reshape(sh)
        return V

    def caxes(self, spaces):
        return tuple(sorted(itertools.chain(*[self.axes[i] for i in self.norm_spaces(spaces)])))

    def remaining(self, spaces):
        S = set(self.norm_spaces(spaces))
        return tuple(n for i, n in enumerate(self.names) if i not in S)

    def total_volume(self, spaces):
        return float(np.broadcast_to(self.volarr(spaces), self.shape).sum(axis=self.caxes(spaces)).ravel()[0])

    def scalar_weight(self, spaces):
        if not self.uniform(spaces):
            return None
        return float(self.volarr(spaces).ravel()[0])


# ------------------------------------------------------------------ contractions
def contract(op, a, R, spaces, b=None, power=None):
    """Reference value (numpy array / scalar) and a magnitude scale for the comparison."""
    ax = R.caxes(spaces)
    absa = np.abs(a).astype(np.float64)
    amax = max(1., float(absa.max(initial=0.)))
    if op == "sum":
        return a.sum(axis=ax), max(1., float(absa.sum(axis=ax).max(initial=0.)))
    if op == "prod":
        r = a.prod(axis=ax)
        return r, None            # relative comparison
    if op == "vdot":
        t = np.conj(a) * b
        return t.sum(axis=ax), max(1., float(np.abs(t).sum(axis=ax).max(initial=0.)))
    V = np.broadcast_to(R.volarr(spaces), R.shape)
    tot = V.sum(axis=ax, keepdims=True)
    if op == "weight":
        Vp = V ** power
        return a * Vp, max(1., float((absa * Vp).max(initial=0.)))
    if op == "integrate":
        return (a * V).sum(axis=ax), max(1., float((absa * V).sum(axis=ax).max(initial=0.)))
    mean = (a * V).sum(axis=ax, keepdims=True) / tot
    if op == "mean":
        return mean.reshape(np.asarray(a.sum(axis=ax)).shape), amax
    var = (V * np.abs(a - mean) ** 2).sum(axis=ax) / tot.reshape(np.asarray(a.sum(axis=ax)).shape)
    if op == "var":
        return var, amax ** 2 * 4
    if op == "std":
        return np.sqrt(var), amax * 2
    raise KeyError(op)


def pnorm(arrs, ord):
    v = np.concatenate([np.abs(np.asarray(a)).astype(np.float64).ravel() for a in arrs])
    if ord == "inf":
        return float(v.max(initial=0.))
    return float((v ** ord).sum() ** (1. / ord))


BINOPS = {
    "add": lambda x, y: x + y, "sub": lambda x, y: x - y, "mul": lambda x, y: x * y,
    "truediv": lambda x, y: x / y, "floordiv": lambda x, y: x // y, "pow": lambda x, y: x ** y,
    "lt": lambda x, y: x < y, "le": lambda x, y: x <= y, "gt": lambda x, y: x > y,
    "ge": lambda x, y: x >= y, "eq": lambda x, y: x == y, "ne": lambda x, y: x != y,
}
UNOPS = {
    "neg": lambda x: -x, "pos": lambda x: +x, "abs": lambda x: abs(x), "conjugate": lambda x: np.conjugate(x),
    "real": lambda x: x.real, "imag": lambda x: x.imag,
}


# ------------------------------------------------------------------ values
def fill(shape, dt, seed, slot):
    """Generic fill: magnitudes in [0.5, 2], mixed signs; ints from +-{1,2,3}.  Deterministic in (seed, slot, shape)."""
    rng = np.random.default_rng([int(seed), int(slot), len(shape)] + [int(s) for s in shape])
    n = int(np.prod(shape, dtype=int))

    def fl():
        return (rng.choice([-1., 1.], size=n) * (0.5 + 1.5 * rng.random(n))).reshape(shape)
    if dt == "i8":
        return (rng.choice([-1, 1], size=n) * rng.integers(1, 4, size=n)).astype(np.int64).reshape(shape)
    if dt == "f8":
        return fl()
    if dt == "c16":
        return fl() + 1j * fl()
    if dt == "b1":
        return (rng.integers(0, 2, size=n) == 1).reshape(shape)
    raise KeyError(dt)


def _cast(v, dt):
    if dt == "c16":
        return complex(v)
    r = float(np.real(v))
    if dt == "f8":
        return r
    k = int(round(r))
    return k if k != 0 else 1


def partner(a, shape, dt, seed, slot):
    """Second operand: generic, but every third entry copies `a` (cast to dt) so that ==, <=, >= have ties."""
    b = fill(shape, dt, seed, slot)
    fa, fb = np.asarray(a).reshape(-1), b.reshape(-1).copy()
    for i in range(0, fa.size, 3):
        fb[i] = _cast(fa[i], dt)
    return fb.reshape(shape)


def onehots(shape, dt):
    """All unit arrays (and i * unit arrays for complex)."""
    n = int(np.prod(shape, dtype=int))
    npd = {"i8": np.int64, "f8": np.float64, "c16": np.complex128}[dt]
    for i in range(n):
        e = np.zeros(n, dtype=npd)
        e[i] = 1
        yield e.reshape(shape)
    if dt == "c16":
        for i in range(n):
            e = np.zeros(n, dtype=npd)
            e[i] = 1j
            yield e.reshape(shape)
