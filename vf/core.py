"""Core of the bounded-exhaustive checker: case runner, evidence, findings.

A property driver (vf/props/cNN.py) exposes

    ID, LEVEL, ASSUMPTIONS (list[str]), RULE (str)
    cases(tier, seed)   -> iterable of JSON-serialisable case dicts (the finite
                           space, enumerated completely, simplest first)
    run(case)           -> Outcome dict, see `ok()/bad()/skip()` below
    (optional) finish(ctx) -> extra coverage dict / extra violations
    (optional) JAX=True -> workers get the JAX environment

The runner executes *every* case (sharded over a fork pool created before any
heavy import), re-executes each violating case once more to make sure it is
deterministic, matches violations against known_findings.json, writes replay
files and the evidence file.
"""
import hashlib
import importlib
import json
import multiprocessing as mp
import os
import sys
import time
import traceback

ROOT = os.path.dirname(os.path.dirname(os.path.abspath(__file__)))
EVID = os.path.join(ROOT, "evidence")
REPLAYS = os.path.join(ROOT, "replays")
KNOWN = os.path.join(ROOT, "known_findings.json")


# ---------------------------------------------------------------- outcomes
def ok(nontrivial=True, outcome="ok", **extra):
    d = dict(status="ok", nontrivial=bool(nontrivial), outcome=str(outcome))
    d.update(extra)
    return d


def bad(what, finding_key=None, **extra):
    """A violation.  `finding_key` is the *semantic* key matched against
    known_findings.json (never an ordinal)."""
    d = dict(status="bad", what=str(what), finding_key=finding_key,
             nontrivial=True, outcome="VIOLATION")
    d.update(extra)
    return d


def skip(why, **extra):
    """Case outside the property's premise (e.g. operator documents that it
    rejects this dtype and raises).  Counted, never a pass."""
    d = dict(status="skip", why=str(why), nontrivial=False, outcome="skip:" + str(why))
    d.update(extra)
    return d


def case_key(case):
    return hashlib.sha1(json.dumps(case, sort_keys=True, default=str).encode()).hexdigest()[:16]


# ---------------------------------------------------------------- worker
_mod_cache = {}


def _driver(pid):
    if pid not in _mod_cache:
        _mod_cache[pid] = importlib.import_module("vf.props." + pid.lower())
    return _mod_cache[pid]


def _run_one(args):
    pid, case = args
    try:
        drv = _driver(pid)
        t0 = time.time()
        out = drv.run(case)
        if out is None:
            out = ok()
        out["wall"] = time.time() - t0
    except BaseException as e:
        if isinstance(e, (KeyboardInterrupt, SystemExit, MemoryError)):
            raise
        # An exception escaping a driver on real library code is a failed
        # case (drivers catch and classify every *documented* rejection); it
        # is reported as a violation with the exception type as semantic key.
        out = dict(status="bad", what="unexpected exception: %r" % (e,),
                   finding_key="exception:%s" % type(e).__name__,
                   detail=traceback.format_exc()[-3000:], nontrivial=True,
                   outcome="VIOLATION")
    return case, out


def _n_maps():
    try:
        with open("/proc/self/maps") as f:
            return sum(1 for _ in f)
    except OSError:
        return 0


def _relieve_jax():
    """A long-lived worker that compiles thousands of small XLA programs runs into vm.max_map_count (every
    compiled executable is mmapped; LLVM then fails with 'Cannot allocate memory' and the process dies).  Drop the
    compilation caches when the number of mappings gets large."""
    if "jax" in sys.modules and _n_maps() > 20000:
        import gc
        sys.modules["jax"].clear_caches()
        gc.collect()


def _run_chunk(args):
    pid, chunk = args
    out = []
    for c in chunk:
        out.append(_run_one((pid, c)))
        _relieve_jax()
    return out


def make_pool(jobs):
    # fork pool created *before* the parent imports anything heavy (jax is
    # not fork safe once initialised)
    ctx = mp.get_context("fork")
    return ctx.Pool(jobs)


# ---------------------------------------------------------------- findings
def load_known(pid):
    if not os.path.exists(KNOWN):
        return {}, []
    data = json.load(open(KNOWN))
    known = {e["key"]: e for e in data.get("known", []) if e["property"] == pid}
    fixed = [e for e in data.get("fixed", []) if e["property"] == pid]
    return known, fixed


# ---------------------------------------------------------------- runner
class Run:
    def __init__(self, pid, tier, seed, jobs):
        self.pid, self.tier, self.seed, self.jobs = pid, tier, seed, jobs
        self.t0 = time.time()
        self.evaluations = 0
        self.keys = set()
        self.nontrivial_keys = set()
        self.outcomes = {}
        self.skips = {}
        self.samples = []
        self.violations = []   # (case, out)
        self.known_hits = {}   # key -> (case, out)
        self.errors = []
        self.extra = {}

    def record(self, case, out):
        self.evaluations += 1
        k = case_key(case)
        self.keys.add(k)
        st = out["status"]
        for k2, v in (out.get("stats") or {}).items():
            if isinstance(v, (int, float)):
                self.extra[k2] = self.extra.get(k2, 0) + v
        if st == "ok":
            if out.get("nontrivial"):
                self.nontrivial_keys.add(k)
            o = out.get("outcome", "ok")
            self.outcomes[o] = self.outcomes.get(o, 0) + 1
            if len(self.samples) < 3 or (out.get("nontrivial") and len(self.samples) < 6
                                         and self.evaluations % 97 == 0):
                self.samples.append(dict(case=case, outcome=o,
                                         **{k2: v for k2, v in out.items()
                                            if k2 in ("detail",)}))
        elif st == "skip":
            self.skips[out["why"]] = self.skips.get(out["why"], 0) + 1
        elif st == "bad":
            self.nontrivial_keys.add(k)
            self.violations.append((case, out))
        else:
            self.errors.append((case, out))


def write_replay(pid, case, out):
    d = os.path.join(REPLAYS, pid)
    os.makedirs(d, exist_ok=True)
    path = os.path.join(d, case_key(case) + ".json")
    with open(path, "w") as f:
        json.dump(dict(property=pid, case=case, what=out.get("what"),
                       finding_key=out.get("finding_key"), detail=out.get("detail"),
                       replay_cmd="./check %s --replay %s" % (pid, path)),
                  f, indent=1, default=str)
    return path


def write_evidence(pid, tier, seed, level, coverage, assumptions, wall, violations):
    os.makedirs(EVID, exist_ok=True)
    ev = dict(property_id=pid, tier=tier, seed=int(seed), level=level,
              coverage=coverage, assumptions=list(assumptions),
              wall_s=round(wall, 3), violations=int(violations))
    tmp = os.path.join(EVID, pid + ".json.tmp")
    with open(tmp, "w") as f:
        json.dump(ev, f, indent=1, default=str)
    os.replace(tmp, os.path.join(EVID, pid + ".json"))
    return ev


def report(run, drv, coverage_extra=None, exhaustive=True):
    """Triage violations against known findings, print the verdict lines,
    write evidence, return exit code."""
    pid = run.pid
    known, fixed = load_known(pid)
    new = []
    for case, out in run.violations:
        fk = out.get("finding_key")
        if fk is not None and fk in known:
            run.known_hits.setdefault(fk, (case, out))
        else:
            new.append((case, out))
    for fk, (case, out) in sorted(run.known_hits.items()):
        print("KNOWN-FINDING: property=%s %s [%s]" % (pid, known[fk]["what"], fk))
    rc = 0
    # simplest first: cases were enumerated simplest-first; keep that order
    shown = set()
    for case, out in new:
        fk = out.get("finding_key") or out.get("what")
        path = write_replay(pid, case, out)
        if fk in shown and len(shown) > 0:
            continue
        shown.add(fk)
        if len(shown) <= 10:
            print("VIOLATION property=%s replay=%s" % (pid, path))
            print("   what: %s" % out.get("what"))
            print("   case: %s" % json.dumps(case, default=str)[:600])
        rc = 1
    for case, out in run.errors[:5]:
        print("HARNESS-ERROR property=%s case=%s\n%s" % (pid, json.dumps(case, default=str)[:400],
                                                          out.get("tb", out.get("what"))))
    if run.errors and rc == 0:
        rc = 2      # harness errors only: no verdict (a reported violation keeps exit code 1)
    cov = dict(
        evaluations=run.evaluations,
        distinct_cases=len(run.keys),
        distinct_nontrivial=len(run.nontrivial_keys),
        rule=getattr(drv, "RULE", ""),
        samples=run.samples[:6] if run.samples else
        [dict(case=c, outcome=o.get("outcome")) for c, o in (run.violations + run.errors)[:3]],
        exhaustive=bool(exhaustive) and not run.errors and "filtered_by" not in run.extra,
        outcomes_distinct=len(run.outcomes),
        outcome_histogram=dict(sorted(run.outcomes.items(), key=lambda kv: -kv[1])[:40]),
        skipped=run.skips,
        known_findings_hit=sorted(run.known_hits),
        new_violations=len(new),
        harness_errors=len(run.errors),
        jobs=run.jobs,
    )
    cov.update(run.extra)
    if coverage_extra:
        cov.update(coverage_extra)
    write_evidence(pid, run.tier, run.seed, getattr(drv, "LEVEL", "exploration"), cov,
                   getattr(drv, "ASSUMPTIONS", []), time.time() - run.t0, len(new))
    print("%s tier=%s seed=%s evaluations=%d distinct=%d nontrivial=%d outcomes=%d skipped=%d "
          "known=%d new_violations=%d errors=%d wall=%.1fs" % (
              pid, run.tier, run.seed, run.evaluations, len(run.keys), len(run.nontrivial_keys),
              len(run.outcomes), sum(run.skips.values()), len(run.known_hits), len(new),
              len(run.errors), time.time() - run.t0))
    return rc


def _watched(pool, it, n, pid, tier, jobs):
    """Yield the results of pool.imap, but notice a worker that died (killed by the OOM killer, crashed in native
    code): multiprocessing would wait for its lost task for ever.  The whole check is then restarted with half
    the workers (twice at most); no verdict is derived from a partial run."""
    import multiprocessing as mp
    pids = {p.pid for p in pool._pool}
    got = 0
    while got < n:
        try:
            res = it.next(timeout=15)
        except mp.TimeoutError:
            alive = {p.pid for p in pool._pool if p.is_alive()}
            if pids <= alive:
                continue
            pool.terminate()
            retry = int(os.environ.get("VERIF_RETRY", "0"))
            if retry >= 2:
                print("HARNESS ERROR: worker processes of %s keep dying (out of memory?); no verdict" % pid)
                sys.stdout.flush()
                os._exit(2)
            newjobs = max(2, jobs // 2)
            print("note: a worker process died (out of memory?); restarting %s with %d workers" % (pid, newjobs))
            sys.stdout.flush()
            os.environ["VERIF_RETRY"] = str(retry + 1)
            os.execv(sys.executable, [sys.executable, "-m", "vf.cli", pid, "--tier", tier, "--jobs", str(newjobs)])
        except StopIteration:
            return
        got += 1
        yield res


def run_property(pid, tier, seed, jobs, replay=None):
    pool = None
    if replay is None and jobs > 1:
        pool = make_pool(jobs)
    drv = _driver(pid)
    if hasattr(drv, "main"):          # engine-specific drivers (S/F/H/W modes)
        try:
            return drv.main(tier=tier, seed=seed, jobs=jobs, replay=replay, pool=pool)
        finally:
            if pool is not None:
                pool.terminate()
    if replay is not None:
        data = json.load(open(replay))
        case = data["case"]
        obs = []
        for i in range(2):
            _, out = _run_one((pid, case))
            obs.append({k: v for k, v in out.items() if k != "wall"})
        print(json.dumps(obs[0], indent=1, default=str)[:4000])
        if json.dumps(obs[0], sort_keys=True, default=str) != json.dumps(obs[1], sort_keys=True, default=str):
            print("REPLAY NOT DETERMINISTIC")
            return 2
        if obs[0]["status"] == "bad":
            print("VIOLATION property=%s replay=%s" % (pid, replay))
            return 1
        return 0 if obs[0]["status"] in ("ok", "skip") else 2
    run = Run(pid, tier, seed, jobs)
    import shutil
    shutil.rmtree(os.path.join(REPLAYS, pid), ignore_errors=True)   # replays of this run only
    cases = list(drv.cases(tier, seed))
    flt = os.environ.get("VERIF_FILTER")     # development aid only: "key=value,key=value" (evidence marks the run partial)
    if flt:
        kv = [p.split("=", 1) for p in flt.split(",")]
        cases = [c for c in cases if all(str(c.get(k)) == v for k, v in kv)]
        run.extra["filtered_by"] = flt
    chunk = max(1, min(64, len(cases) // (jobs * 8) or 1))
    chunks = [(pid, cases[i:i + chunk]) for i in range(0, len(cases), chunk)]
    try:
        if pool is None:
            it = map(_run_chunk, chunks)
        else:
            it = _watched(pool, pool.imap(_run_chunk, chunks), len(chunks), pid, tier, jobs)   # ordered: simplest first
        for res in it:
            for case, out in res:
                run.record(case, out)
                if hasattr(drv, "collect"):
                    drv.collect(run, case, out)   # cross-case aggregation for finish()
    finally:
        if pool is not None:
            pool.terminate()
    # determinism: re-run each distinct violating case once in this process
    confirmed = []
    seen_fk = {}
    for case, out in run.violations:
        fk = out.get("finding_key") or out.get("what")
        seen_fk[fk] = seen_fk.get(fk, 0) + 1
        if seen_fk[fk] > 3:
            confirmed.append((case, out))
            continue
        _, out2 = _run_one((pid, case))
        if out2["status"] == "bad":
            confirmed.append((case, out))
        else:
            run.errors.append((case, dict(status="error", what="violation not reproducible on re-run: %s" % out.get("what"))))
    run.violations = confirmed
    extra = None
    if hasattr(drv, "finish"):
        extra = drv.finish(run)   # may append to run.violations / run.extra
    return report(run, drv, extra)
