"""Mode F: write-history recorder and crash-state generator (process-kill model).

During ONE uninterrupted reference run every file-system mutation under a
watched root is recorded as an event; files opened for writing are replaced
by a pass-through proxy whose every write/close is an event.  The event log
is a tiny log-structured file system: any prefix of it (plus torn variants of
the next write) can be materialised into a fresh directory = the directory a
kill at that instant would have left behind.

Model: completed operations persist; everything after the crash point is
lost; a `write` may be torn (only a prefix of its bytes arrived); bytes written
to a handle that was neither flushed nor closed yet live in the process's
buffer and may be lost entirely ("unflushed" crash points - they matter when a
file is renamed into place before it is closed).  Power-loss reordering of
completed-but-unsynced operations is NOT modelled.
"""
import builtins
import io
import os
import pathlib
import shutil


class Event(dict):
    pass


def _is_write_mode(mode):
    return any(c in mode for c in "wax+")


class _Proxy:
    """Pass-through file object that logs writes."""

    def __init__(self, rec, real, rel, mode, hid):
        self._rec, self._real, self._rel, self._mode, self._hid = rec, real, rel, mode, hid
        self._closed = False

    def write(self, data):
        if isinstance(data, str):
            b = data.encode(self._real.encoding or "utf-8")
        else:
            b = bytes(data)
        self._rec._emit(dict(op="write", path=self._rel, h=self._hid, data=b))
        return self._real.write(data)

    def writelines(self, lines):
        for l in lines:
            self.write(l)

    def flush(self):
        self._rec._emit(dict(op="flush", path=self._rel, h=self._hid))
        return self._real.flush()

    def close(self):
        if not self._closed:
            self._closed = True
            self._rec._emit(dict(op="close", path=self._rel, h=self._hid))
            self._rec._open_handles.discard(self._hid)
        return self._real.close()

    def seek(self, *a):
        raise io.UnsupportedOperation("fsfault: seek on a recorded write handle is not modelled")

    def truncate(self, *a):
        raise io.UnsupportedOperation("fsfault: truncate on a recorded write handle is not modelled")

    def tell(self):
        return self._real.tell()

    def fileno(self):
        raise io.UnsupportedOperation("fsfault: fileno on a recorded write handle (C-level writes are out of reach)")

    def __enter__(self):
        return self

    def __exit__(self, *a):
        self.close()
        return False

    def __getattr__(self, name):
        return getattr(self._real, name)

    @property
    def closed(self):
        return self._closed


class Recorder:
    def __init__(self, root, module_patches=()):
        """module_patches: iterable of (module, attr, kind) for names bound at
        import time, kind in {makedirs, remove, rename, replace, mkdir, open}."""
        self.root = os.path.realpath(root)
        self.events = []
        self.module_patches = list(module_patches)
        self._saved = []
        self._open_handles = set()
        self._hid = 0
        self.overlap = False   # another FS event while a write handle is open

    # -- helpers
    def _rel(self, path):
        try:
            p = os.path.realpath(os.fspath(path))
        except TypeError:
            return None
        if p == self.root:
            return "."
        if p.startswith(self.root + os.sep):
            return os.path.relpath(p, self.root)
        return None

    def _emit(self, ev):
        if ev["op"] not in ("write", "close", "flush") and self._open_handles:
            self.overlap = True
        if ev["op"] == "write" and len(self._open_handles) > 1:
            self.overlap = True
        self.events.append(ev)

    # -- wrappers
    def _w_open(self, orig):
        rec = self

        def open_(file, mode="r", *a, **k):
            rel = rec._rel(file) if isinstance(file, (str, bytes, os.PathLike)) else None
            if rel is None or not _is_write_mode(mode):
                return orig(file, mode, *a, **k)
            existed = os.path.exists(file)
            real = orig(file, mode, *a, **k)
            rec._hid += 1
            rec._emit(dict(op="open", path=rel, mode=mode, h=rec._hid, existed=existed))
            rec._open_handles.add(rec._hid)
            return _Proxy(rec, real, rel, mode, rec._hid)
        return open_

    def _w1(self, orig, op):
        rec = self

        def f(path, *a, **k):
            rel = rec._rel(path)
            res = orig(path, *a, **k)
            if rel is not None:
                rec._emit(dict(op=op, path=rel))
            return res
        return f

    def _w2(self, orig, op):
        rec = self

        def f(src, dst, *a, **k):
            rs, rd = rec._rel(src), rec._rel(dst)
            res = orig(src, dst, *a, **k)
            if rs is not None or rd is not None:
                if rs is None or rd is None:
                    raise RuntimeError("fsfault: rename across the watched root")
                rec._emit(dict(op=op, path=rs, dst=rd))
            return res
        return f

    def _w_makedirs(self, orig):
        rec = self

        def f(path, *a, **k):
            rel = rec._rel(path)
            existed = os.path.isdir(path)
            res = orig(path, *a, **k)
            if rel is not None and not existed:
                rec._emit(dict(op="mkdir", path=rel))
            return res
        return f

    def _patch(self, obj, attr, new):
        self._saved.append((obj, attr, getattr(obj, attr)))
        setattr(obj, attr, new)

    def __enter__(self):
        self._patch(builtins, "open", self._w_open(builtins.open))
        self._patch(io, "open", builtins.open)
        self._patch(os, "remove", self._w1(os.remove, "remove"))
        self._patch(os, "unlink", self._w1(os.unlink, "remove"))
        self._patch(os, "rmdir", self._w1(os.rmdir, "rmdir"))
        self._patch(os, "rename", self._w2(os.rename, "rename"))
        self._patch(os, "replace", self._w2(os.replace, "rename"))
        self._patch(os, "makedirs", self._w_makedirs(os.makedirs))
        self._patch(os, "mkdir", self._w_makedirs(os.mkdir))
        rec = self
        orig_unlink = pathlib.Path.unlink

        def p_unlink(self_, missing_ok=False):
            rel = rec._rel(self_)
            existed = os.path.lexists(self_)
            res = orig_unlink(self_, missing_ok=missing_ok)
            if rel is not None and existed:
                rec._emit(dict(op="remove", path=rel))
            return res
        self._patch(pathlib.Path, "unlink", p_unlink)
        for mod, attr, kind in self.module_patches:
            orig = getattr(mod, attr)
            new = {"makedirs": self._w_makedirs, "mkdir": self._w_makedirs,
                   "remove": lambda o: self._w1(o, "remove"),
                   "rename": lambda o: self._w2(o, "rename"),
                   "replace": lambda o: self._w2(o, "rename"),
                   "open": self._w_open}[kind](orig)
            self._patch(mod, attr, new)
        return self

    def __exit__(self, *a):
        for obj, attr, old in reversed(self._saved):
            setattr(obj, attr, old)
        self._saved = []
        return False


# ------------------------------------------------------------------ model FS
def snapshot(root):
    """{relpath: bytes} for files, relpath -> None for directories."""
    fs = {}
    for d, dirs, files in os.walk(root):
        rel = os.path.relpath(d, root)
        if rel != ".":
            fs[rel] = None
        for f in files:
            p = os.path.join(d, f)
            fs[os.path.relpath(p, root)] = open(p, "rb").read()
    return fs


def apply_event(fs, ev, partial=None):
    """Apply one event to the dict FS (in place).  partial: number of bytes of
    a write that arrive (torn write)."""
    op, p = ev["op"], ev["path"]
    if op == "mkdir":
        fs[p] = None
    elif op == "open":
        m = ev["mode"]
        if "w" in m:
            fs[p] = b""
        elif "a" in m or "x" in m:
            fs.setdefault(p, b"")
        elif "+" in m:
            fs.setdefault(p, b"")
    elif op == "write":
        data = ev["data"] if partial is None else ev["data"][:partial]
        fs[p] = (fs.get(p) or b"") + data
    elif op in ("close", "flush"):
        pass
    elif op == "remove":
        fs.pop(p, None)
    elif op == "rmdir":
        fs.pop(p, None)
    elif op == "rename":
        fs[ev["dst"]] = fs.pop(p)
    else:
        raise ValueError(op)


class _Handles:
    """tracks, along an event prefix, which path each open write handle currently backs and how many of its
    bytes have not been flushed"""

    def __init__(self):
        self.h = {}

    def path_of(self, ev):
        h = ev.get("h")
        return self.h[h]["path"] if h in self.h else ev["path"]

    def step(self, ev):
        op, h = ev["op"], ev.get("h")
        if op == "open":
            self.h[h] = dict(path=ev["path"], unflushed=0)
        elif op == "write" and h in self.h:
            self.h[h]["unflushed"] += len(ev["data"])
        elif op == "flush" and h in self.h:
            self.h[h]["unflushed"] = 0
        elif op == "close":
            self.h.pop(h, None)
        elif op == "rename":
            for st in self.h.values():
                if st["path"] == ev["path"]:
                    st["path"] = ev["dst"]
                elif st["path"] == ev["dst"]:
                    st["path"] = None      # the file this handle backs was replaced: it is unlinked now
        elif op == "remove":
            for st in self.h.values():
                if st["path"] == ev["path"]:
                    st["path"] = None

    def dirty(self):
        return [st for st in self.h.values() if st["unflushed"] > 0 and st["path"] is not None]


def _apply(fs, hs, ev, partial=None):
    if ev["op"] == "write":
        p = hs.path_of(ev)
        if p is not None:
            apply_event(fs, dict(ev, path=p), partial=partial)
    else:
        apply_event(fs, ev, partial=partial)
    if partial is None:
        hs.step(ev)


def _drop_unflushed(fs, hs):
    out = dict(fs)
    for st in hs.dirty():
        b = out.get(st["path"])
        if b is not None:
            out[st["path"]] = b[:max(0, len(b) - st["unflushed"])]
    return out


def crash_states(events, initial=None, torn=True):
    """Yield (label dict, fs dict) for every crash point: before event k for
    all k, after the last event, plus torn variants of every write, plus - where an open handle has
    unflushed bytes - the variant in which the process buffer is lost."""
    fs = dict(initial or {})
    hs = _Handles()
    for k, ev in enumerate(events):
        yield dict(point="before", k=k, op=ev["op"], path=ev["path"]), dict(fs)
        if hs.dirty():
            yield dict(point="unflushed", k=k, op=ev["op"], path=ev["path"], lost=True), _drop_unflushed(fs, hs)
        if torn and ev["op"] == "write" and len(ev["data"]) >= 2:
            half = dict(fs)
            _apply(half, hs, ev, partial=len(ev["data"]) // 2)
            yield dict(point="torn", k=k, op="write", path=ev["path"], bytes=len(ev["data"]) // 2,
                       of=len(ev["data"])), half
        _apply(fs, hs, ev)
    yield dict(point="end", k=len(events), op="none", path=""), dict(fs)


def state_at(events, k, torn_bytes=None, initial=None, lost=False):
    fs = dict(initial or {})
    hs = _Handles()
    for ev in events[:k]:
        _apply(fs, hs, ev)
    if lost:
        return _drop_unflushed(fs, hs)
    if torn_bytes is not None:
        _apply(fs, hs, events[k], partial=torn_bytes)
    return fs


def materialise(fs, target):
    os.makedirs(target, exist_ok=True)
    for p, v in sorted(fs.items(), key=lambda kv: kv[0]):
        if v is None:
            os.makedirs(os.path.join(target, p), exist_ok=True)
    for p, v in fs.items():
        if v is not None:
            full = os.path.join(target, p)
            os.makedirs(os.path.dirname(full), exist_ok=True)
            with open(full, "wb") as f:
                f.write(v)


def fs_digest(fs):
    import hashlib
    h = hashlib.sha1()
    for p in sorted(fs):
        h.update(p.encode())
        h.update(b"\0D" if fs[p] is None else b"\0F" + hashlib.sha1(fs[p]).digest())
    return h.hexdigest()[:16]


def describe(events):
    out = []
    for k, ev in enumerate(events):
        d = {kk: vv for kk, vv in ev.items() if kk != "data"}
        if "data" in ev:
            d["len"] = len(ev["data"])
        out.append(d)
    return out
