#!/bin/bash
# tools/tryseed.sh <ID> <patch> [extra env]  -- run the quick check of <ID> against a scratch worktree with the patch applied
ID=$1; PATCH=$2
WT=/tmp/wt_try_$ID_$$
git -C /repo worktree add -q $WT HEAD || exit 3
git -C $WT apply $PATCH || { echo "PATCH DOES NOT APPLY"; git -C /repo worktree remove --force $WT; exit 3; }
cd /verif
cp evidence/$ID.json /tmp/ev_$ID.bak 2>/dev/null
VERIF_REPO=$WT ./check $ID --tier quick 2>&1 | grep -E "^VIOLATION|what:|^$ID tier|KNOWN" | cut -c1-400 | head -12
RC=${PIPESTATUS[0]}
cp /tmp/ev_$ID.bak evidence/$ID.json 2>/dev/null
git -C /repo worktree remove --force $WT
echo "exit=$RC"
