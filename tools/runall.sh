#!/bin/bash
# tools/runall.sh [tier] [seed]  -- run every registered check once, print a one-line verdict each
TIER=${1:-quick}; export VERIF_SEED=${2:-0}
cd /verif
for id in $(/venv/bin/python -c "import json;print(' '.join(c['property_id'] for c in json.load(open('MANIFEST.json'))['checks']))"); do
  S=$(date +%s)
  ./check $id --tier $TIER > /tmp/runall_$id.log 2>&1; RC=$?
  E=$(date +%s)
  echo "$id rc=$RC wall=$((E-S))s $(grep -c '^KNOWN-FINDING' /tmp/runall_$id.log) known :: $(grep "^$id tier" /tmp/runall_$id.log | cut -c1-160)"
done
