#!/venv/bin/python
import json, glob, jsonschema, sys
es=json.load(open('/root/.vp/EVIDENCE.schema.json')); ms=json.load(open('/root/.vp/MANIFEST.schema.json'))
man=json.load(open('/verif/MANIFEST.json')); jsonschema.validate(man,ms)
bad=0
for c in man['checks']:
    f=c['evidence_file']
    try:
        e=json.load(open(f)); jsonschema.validate(e,es)
        assert e['level']==c['level_claimed']['category'], ("level mismatch", e['level'], c['level_claimed']['category'])
        cov=e['coverage']
        print(c['property_id'], e['tier'], e['level'], 'eval', cov.get('evaluations'), 'nontriv', cov.get('distinct_nontrivial'), 'states', cov.get('states'), 'viol', e.get('violations'), 'wall', e['wall_s'])
    except Exception as ex:
        bad+=1; print(c['property_id'], 'INVALID', str(ex)[:300])
sys.exit(1 if bad else 0)
