#!/venv/bin/python
"""tools/keepseed.py <ID> <srcdir> <detected:yes|no> "<what my check reported>" "<what I ran to confirm>" [name]
Copies an independently written property-breaking change into /verif/seeded/<name>/ and extends meta.json."""
import json, os, shutil, sys
pid, src, detected, reported, ran = sys.argv[1:6]
name = sys.argv[6] if len(sys.argv) > 6 else pid
dst = os.path.join('/verif/seeded', name)
os.makedirs(dst, exist_ok=True)
for f in os.listdir(src):
    if f in ('patch.diff', 'meta.json') or f.startswith('demo') or f.startswith('test_'):
        if os.path.getsize(os.path.join(src, f)) < 200000:
            shutil.copy(os.path.join(src, f), dst)
mp = os.path.join(dst, 'meta.json')
meta = json.load(open(mp)) if os.path.exists(mp) else {}
meta['property'] = pid
meta['coordinator_confirmation'] = ran
meta['detected_by_check'] = detected
meta['check_report'] = reported
json.dump(meta, open(mp, 'w'), indent=1)
print('kept', dst)
