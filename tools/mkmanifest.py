#!/venv/bin/python
"""Regenerates MANIFEST.json from the table below (single source of truth)."""
import json, os, sys
ROOT = os.path.dirname(os.path.dirname(os.path.abspath(__file__)))
sys.path.insert(0, ROOT)
from tools.manifest_table import CHECKS, NOT_APPLICABLE, HOOK_COMMITS

props = [json.loads(l)["id"] for l in open(os.path.join(ROOT, "properties.jsonl"))]
checks = []
for pid in props:
    if pid not in CHECKS:
        continue
    c = CHECKS[pid]
    checks.append(dict(
        property_id=pid,
        quick_cmd="./check %s --tier quick" % pid,
        thorough_cmd="./check %s --tier thorough" % pid,
        evidence_file="/verif/evidence/%s.json" % pid,
        replay_cmd_template="./check %s --replay {path}" % pid,
        engine=c["engine"],
        level_claimed=dict(category=c["level"], text=c["text"], design_ref=c.get("ref", "DESIGN.md section for " + pid)),
        level_note=c["note"],
        technique=c["technique"],
    ))
na = [dict(property_id=p, reason=NOT_APPLICABLE.get(p, "check not built yet in this session (planned in DESIGN.md; not claimed until it runs silent on the unchanged tree)"))
      for p in props if p not in CHECKS]
man = dict(
    version=1,
    setup_cmd="/venv/bin/python -c \"import nifty.cl, jax, greenlet, jsonschema\" && tlc -h >/dev/null 2>&1; chmod +x /verif/check; true",
    hooks=dict(guard="NIFTY_VERIF", enable="export NIFTY_VERIF=1 (set by ./check; no source hooks are currently needed: all seams are reachable from the harness process)",
               baseline_off_cmd="cd /repo && env -u NIFTY_VERIF /venv/bin/python -m pytest -ra -q -p no:cacheprovider --timeout=900 --continue-on-collection-errors",
               source_commits=HOOK_COMMITS, add_only=True),
    engines=[
        dict(name="case-runner", path="vf/core.py", kind_free_text="bounded-exhaustive enumeration of finite case spaces over the real code, 16-way sharded, known-finding triage, replay files, evidence"),
        dict(name="simcomm", path="vf/simcomm.py", serves_properties=["C23", "C22", "C26"], kind_free_text="controlled communicator + stateful DFS over all interleavings (rendezvous and buffered semantics)"),
        dict(name="tlabind", path="vf/tlabind.py", serves_properties=["C23"], kind_free_text="TLC on models/allreduce.tla + replay of every edge of the dumped state graph against the implementation"),
    ],
    checks=checks,
    not_applicable=na,
    notes="All checks are bounded exhaustive explorations (model checking family); see DESIGN.md. known_findings.json lists genuine defects (fixed or recorded).",
)
json.dump(man, open(os.path.join(ROOT, "MANIFEST.json"), "w"), indent=1)
import jsonschema
jsonschema.validate(man, json.load(open("/root/.vp/MANIFEST.schema.json")))
print("MANIFEST.json: %d checks, %d not_applicable" % (len(checks), len(na)))
