#!/venv/bin/python
"""Append an entry to known_findings.json (never used at check run time).
usage: tools/kf.py fixed C24 <commit> "<what failed>" [key-prefix]
       tools/kf.py known C25 "<semantic key>" "<what fails>"
"""
import json, sys, os
p = os.path.join(os.path.dirname(os.path.dirname(os.path.abspath(__file__))), "known_findings.json")
d = json.load(open(p))
kind = sys.argv[1]
if kind == "fixed":
    _, _, pid, commit, what = sys.argv[:5]
    key = sys.argv[5] if len(sys.argv) > 5 else None
    d["fixed"].append(dict(property=pid, commit=commit, what=what, key=key,
                           line="fixed: property=%s %s %s" % (pid, commit, what)))
else:
    _, _, pid, key, what = sys.argv[:5]
    d["known"].append(dict(property=pid, key=key, what=what))
json.dump(d, open(p, "w"), indent=1)
