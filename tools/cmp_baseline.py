#!/venv/bin/python
"""tools/cmp_baseline.py <junit.xml>: compare passed tests with BASELINE.json stable_pass"""
import json, sys, xml.etree.ElementTree as ET
base=set(json.load(open('/root/.vp/BASELINE.json'))['stable_pass'])
t=ET.parse(sys.argv[1]).getroot()
passed=set()
for tc in t.iter('testcase'):
    if not list(tc):  # no failure/error/skipped children
        passed.add("%s::%s" % (tc.get('classname'), tc.get('name')))
print("baseline stable_pass:", len(base), "passed now:", len(passed), "missing:", len(base-passed))
for m in sorted(base-passed)[:20]: print("  MISSING", m)
