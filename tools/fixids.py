#!/venv/bin/python
"""Re-resolve commit ids in known_findings.json after a history rewrite in /repo (matches by commit subject)."""
import json,subprocess
d=json.load(open('/verif/known_findings.json'))
log=subprocess.check_output(['git','-C','/repo','log','--format=%h %s']).decode().splitlines()
hashes={l.split()[0] for l in log}
for e in d['fixed']:
    if e['commit'] not in hashes:
        subj=subprocess.check_output(['git','-C','/repo','log','-1','--format=%s',e['commit']]).decode().strip()
        new=[l.split()[0] for l in log if l.split(' ',1)[1]==subj]
        assert len(new)==1,(e['commit'],subj,new)
        e['line']=e['line'].replace(e['commit'],new[0]); e['commit']=new[0]; print('remapped',subj[:60],new[0])
json.dump(d,open('/verif/known_findings.json','w'),indent=1)
