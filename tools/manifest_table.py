HOOK_COMMITS = []
NOT_APPLICABLE = {}
CHECKS = {
 "C23": dict(
    engine="simcomm+tlabind", level="model_checking",
    technique="stateful DFS over all rank interleavings of the real allreduce_sum under a controlled communicator; TLC on a TLA+ protocol model bound to the code by replaying every model edge",
    text="Every ordered partition (incl. empty ranks) of n summands over k ranks, all interleavings, rendezvous and buffered sends: no deadlock, every rank returns the single-process pairwise tree (symbolic summands make the value the tree itself; float/ndarray/Field/MultiField payloads bit-compared). TLC checks the abstract protocol to larger k,n; every edge of TLC's state graph is replayed against the implementation with enabled-set equality (bisimulation on the reachable graph).",
    note="Simulated communicator (mpi4py surface used by NIFTy), not libmpi; collectives modelled as synchronising; bounds: quick n<=8,k<=4 (sym) / thorough n<=10,k<=5; TLC up to k=6,n=12.",
    ref="DESIGN.md section 3 (C23), 7.4"),
}
