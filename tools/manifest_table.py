HOOK_COMMITS = []
NOT_APPLICABLE = {}
CHECKS = {
 "C23": dict(
    engine="simcomm+tlabind", level="model_checking",
    technique="stateful DFS over all rank interleavings of the real allreduce_sum under a controlled communicator; TLC on a TLA+ protocol model bound to the code by replaying every model edge",
    text="Every ordered partition (incl. empty ranks) of n summands over k ranks, all interleavings, rendezvous and buffered sends: no deadlock, every rank returns the single-process pairwise tree (symbolic summands make the value the tree itself; float/ndarray/Field/MultiField payloads bit-compared). TLC checks the abstract protocol to larger k,n; every edge of TLC's state graph is replayed against the implementation with enabled-set equality (bisimulation on the reachable graph).",
    note="Simulated communicator (mpi4py surface used by NIFTy), not libmpi; collectives modelled as synchronising; bounds: quick n<=8,k<=4 (sym) / thorough n<=10,k<=5; TLC up to k=6,n=12.",
    ref="DESIGN.md section 3 (C23), 7.4"),
 "C24": dict(
    engine="fsfault+case-runner", level="fault_enumeration",
    technique="exhaustive crash-point enumeration of a recorded write history (before every FS event, torn writes, end), each state materialised and resumed with the real driver",
    text="Every crash state of the complete write history of small multi-iteration jft.optimize_kl runs (MGVI, sample-mode switching, MAP->VI, geoVI) is materialised; resume=True must finish and return samples, keys and optimisation state bit-identical to the uninterrupted run, and persist an equivalent state.",
    note="Process-kill model (no power-loss reordering); writes must go through Python open() (asserted by comparing the model FS with the real directory); scenarios are tiny models.",
    ref="DESIGN.md section 4 (C24)"),
 "C25": dict(
    engine="fsfault+case-runner", level="fault_enumeration",
    technique="exhaustive crash-point enumeration of recorded write histories (every FS event, torn writes, clean end) for save strategies all/latest x sample schedules; every state materialised and resumed with the real driver",
    text="Every crash state of ift.optimize_kl runs with an output directory (strategies 'all' and 'latest'; schedules that switch between MAP and sampled iterations and shrink the sample count) is resumed with resume=True from a pristine process state; the final samples and mean must be bit-identical to the uninterrupted run and the directory left behind must load to the same result. Three genuine defects were repaired (fix: commits); the in-place overwrite window of strategy 'latest' is a recorded known finding.",
    note="Process-kill model; plotting/HDF5 export disabled (C-level writes are outside the seam); report files with timestamps not compared; comm=None.",
    ref="DESIGN.md section 4 (C25)"),
 "C07": dict(
    engine="case-runner", level="exploration",
    technique="exhaustive history enumeration: every constructor x root handle x all chains of <=2 handle derivations x all sequences of <=2 writes on the real objects, private-copy oracle after every step",
    text="For every public way of building a Field/MultiField and every array handle reachable from it or from its source array, every write primitive (item/slice assignment, in-place arithmetic, ufunc out=, copyto, fill, sort, flat, put, place) either is rejected or leaves the field, and the outputs of operators built from it, bit-identical to a private copy taken at construction.",
    note="Handles that aliased the source buffer before construction and deliberate setflags(write=True) are outside the alphabet (no flag can protect them); CPU arrays only.",
    ref="DESIGN.md section 5 (C07)"),
 "C26": dict(
    engine="simcomm+case-runner", level="model_checking",
    technique="explicit-state BFS over save histories on the real sample-list classes (canonical directory state, reference model of the last save), every state loaded with every task count under all rank interleavings; exhaustive value sequences for the statistics",
    text="All histories of save(kind, n, tasks, overwrite=True) up to the depth on one shared file-name base (plain and residual lists, Field and MultiField samples); in every reached state loading with 1..3(4) tasks under every SimComm interleaving returns exactly the samples of the last save, in order, on the shareRange ranks (contents carry the save version, so stale samples are visible), and overwrite=False refuses without touching files. Statistics: all 780 value sequences (length<=4, 5 values, real and complex) through average/sample_stat on 1..3 tasks and HDF5 export read back with h5py.",
    note="Simulated communicator; ranks share one directory; numpy's convention for the variance of complex data.",
    ref="DESIGN.md section 5 (C26)"),
 "C22": dict(
    engine="simcomm+case-runner", level="exploration",
    technique="complete configuration product x task counts run on the real code under a controlled communicator (per-rank interpreter state emulated), bit-compared with the single-process run on every rank; deviation-bounded exhaustive schedule exploration for the smallest configuration",
    text="SampledKLEnergy (samples, value, gradient, metric, sample_stat, average, moved expansion point) and full optimize_kl runs for the product n_samples{0..3} x mirror x constants x point estimates x geoVI with 2..4 (thorough 6) tasks incl. tasks without samples: every rank's result is bit-identical to comm=None with the same seed. All schedules with <=1 (thorough <=2) deviations from the default under rendezvous and buffered sends for the smallest configuration; C23 decides the confluence of the message pattern exhaustively.",
    note="libmpi cannot be loaded here: simulated communicator, real transport not exercised; sanity_checks=False (the check insists on a real mpi4py communicator).",
    ref="DESIGN.md section 3 (C22)"),
 "C27": dict(
    engine="case-runner", level="exploration",
    technique="exhaustive configuration enumeration: verified pairwise covering array plus all single-factor deviations (quick), full option product (thorough), each run on the real driver with an options-derived oracle",
    text="16 option factors of ift.optimize_kl (output directory, sanity checks, save strategy, plotting, constants, point estimates, n_samples 0/2/schedule, transitions, inspect callback arity, terminate callback, fresh stochasticity bool/callable, dry run, return_final_position, resume of a finished run, operator export, geoVI): every enumerated combination must complete, return the type and sample count the options imply, keep constant keys, write the files of its save strategy, call callbacks with the right indices and leave nifty.cl.random's stack depth and top generator unchanged. Four genuine defects repaired.",
    note="comm=None; tiny model, 3 iterations; quick = pairwise coverage (verified) not the full product.",
    ref="DESIGN.md section 6 (C27)"),
 'C02': dict(
    engine='case-runner', level='exploration',
    technique='exhaustive constructor-configuration product per exported operator class; each operator densified on the full real/imaginary unit basis in every mode and compared with an independent numpy reference definition',
    text='47 exported LinearOperator classes x constructor-argument alphabets x input dtypes (2084 quick / 4764 thorough cases): dense TIMES matrix equals the independent reference definition, ADJOINT is its (real-ified) transpose, advertised inverses invert, homogeneity/additivity on all basis vectors/pairs, result domain is the declared target, input bytes unchanged. Ten defects repaired, six recorded as known findings.',
    note='f8/c16 only, CPU only, small domains; LOSResponse with sigmas and sphere FuncConvolution only consistency-checked (no closed form).',
    ref='DESIGN.md section for C02'),
 'C06': dict(
    engine='case-runner', level='exploration',
    technique='exhaustive enumeration of domain tuples x space subsets x dtypes x operations, each evaluated on a generic fill and on every one-hot array against numpy with independently derived volume arrays',
    text='87 (thorough 773) domain tuples mixing RG/HP/GL/LM/Power/DOF/Unstructured spaces x every spaces subset x i8/f8/c16 (all dtype pairs for binary ops and vdot) x all arithmetic/comparison/contraction operations of Field and MultiField; mismatching domains must be rejected, rebuilt equal domains accepted. One-hot inputs decide the linear contractions for all values.',
    note='values are alphabet values, structure exhaustive; domains <= 150 pixels; MultiField<op>Field broadcasting is a recorded known finding.',
    ref='DESIGN.md section for C06'),
 'C13': dict(
    engine='case-runner+rngseam', level='exploration',
    technique='exhaustive operator-configuration product; the sampler is run on every unit vector of a scripted white-noise tape (RNG seam), giving the exact matrix L with sample = L xi; L L^H is compared with the dense covariance',
    text='11280 (thorough 71784) cases: scaling, diagonal (all transforms), sandwich (16 buns x 11 cheeses), block-diagonal, sums, SamplingEnabler x adjoint/inverse adapters x forward/inverse draws x real/complex sampling dtype. Zero mean, linearity in the excitation (hence Gaussian), L L^H = C or C^-1 (2C for complex dtype, L L^T = 0) to round-off; operators that cannot be covariances must refuse. No Monte-Carlo step.',
    note='distribution decided through linearity in the scripted excitation; CG inside SamplingEnabler run to 1e-13; documented limitations of the library count as declines (skips).',
    ref='DESIGN.md section for C13'),
 'C32': dict(
    engine='case-runner', level='exploration',
    technique='weighted-choice enumeration: every outcome of every Bernoulli draw of a NUTS/HMC transition is executed (library control flow switched to Python, jax.random.bernoulli replaced by an enumerating chooser), giving the exact transition kernel on a leapfrog orbit; grid enumeration for the integrator identities',
    text="Leapfrog: reversibility, flip-reversibility, |det|=1 and symplecticity (jacfwd) on every point of a 5^(2d) phase-space grid x step sizes x masses x 4 potentials. HMC: detailed balance w(z)a(z->z')=w(z')a(z'->z) and involution of the proposal at every grid point. NUTS: for 9 (thorough 16) orbits incl. max_tree_depth 1,2(,3), biased and unbiased progressive sampling, all starts in the window and ALL Bernoulli outcomes (3998 weighted paths quick): path weights sum to 1, candidates lie on the orbit, and global balance sum_k w_k K(k->j)=w_j holds to 1e-8 (observed 2e-16) on orbits where the U-turn criterion truncates trees. Momentum refresh exact N(0,M) through the scripted RNG.",
    note="'long chains reproduce moments' is the statistical corollary of these kernel identities and is not sampled; eager execution through the library's _DISABLE_CONTROL_FLOW_PRIM switch; step sizes inside the leapfrog stability region.",
    ref='DESIGN.md section for C32'),
 'C21': dict(
    engine='case-runner', level='model_checking',
    technique='explicit-state BFS over RNG-stack operation histories on the real nifty.cl.random module with a lock-step reference model; exhaustive (residual_map x kl_map x jit) configuration product; fresh-process repetition',
    text="All histories up to depth 6 (thorough 8) over {enter/exit Context, exit by exception, with-blocks, push/pop, draw, spawn}: stack depth, identity of the restored generator, every draw and spawn equal numpy's stream from the seed alone, exceptions propagate. Classic and JAX VI runs are bit-identical across three fresh interpreters (random PYTHONHASHSEED); all 18 (residual_map, kl_map, jit) configurations of the JAX driver agree with the baseline to 1e-10.",
    note='well-nested stack use; JAX minimisers fixed to the jit-compatible variants so that only map/jit choices vary.',
    ref='DESIGN.md section for C21'),
 'C01': dict(
    engine='case-runner', level='exploration',
    technique='exhaustive enumeration of operator expression trees (all trees up to a node bound over a 49-leaf library incl. harness-side dense rectangular leaves), each decided on the full real+imaginary unit basis in every advertised mode against a numpy matrix model with structural capability rule',
    text='201,909 (thorough 1,058,704) trees over {+,-,@,scalar*,.adjoint,.inverse,Sandwich.make}: every advertised mode equals the reference matrix expression (A, A^H, A^-1, A^-H) within a propagated round-off bound; advertised capability contains the structural rule and every extra advertised mode is matrix-correct; domain/target identity. 50 simplifier/flip branches are recorded as hit. Three defects repaired.',
    note='depth 3 only over reduced leaf libraries; inverses checked where the reference is well conditioned.',
    ref='DESIGN.md section for C01'),
 'C03': dict(
    engine='case-runner', level='exploration',
    technique='exhaustive enumeration of expression trees up to a node bound over the complete point-wise table, arithmetic, linear leaves, multi-domain forms and energies; each tree built as operator, via Linearization/Field methods and as plain-array transliteration; Jacobians decided on the full unit basis against jax.jacfwd',
    text='12,470 (thorough 174,750) (tree, dtype, point) cases: plain value = linearization value = reference; dense Jacobian (all real and imaginary unit vectors through jac.times) = jax.jacfwd of the transliteration; jac.adjoint_times = transpose; metric = sum J^T F J with closed-form Fisher F. Vacuity guard: every ptw_dict function verified (complex where holomorphic). Five defects repaired.',
    note='two generic grid points per dtype; node-count bound with graded alphabets instead of a uniform depth; Fisher metrics of bare likelihoods are closed forms (their correctness is C11).',
    ref='DESIGN.md section for C03'),
 'C04': dict(
    engine='case-runner', level='exploration',
    technique='exhaustive enumeration: generated multi-key trees x EVERY non-empty proper subset of keys as constants x dtype x point; specialised operator compared with the original evaluated at (constants U variables) on the full unit basis',
    text='7,740 (thorough 101,316) cases: simplify_for_constant_input result has the right domain/target, value, dense Jacobian = variable-key columns, adjoint, metric = variable x variable block; EnergyAdapter(constants=...) value, gradient keys/values and metric. Two defects repaired.',
    note='c_out of simplify_for_constant_input is always None in this tree (merge code unreachable, as the design predicted); SampledKLEnergy(constants) is C19.',
    ref='DESIGN.md section for C04'),
 'C05': dict(
    engine='case-runner', level='exploration',
    technique='exhaustive enumeration of straight-line programs (DAGs with shared leaves and shared sub-trees, canonicalised by object graph) x the full input grid 3^pixels; optimised operator compared with an independent numpy transliteration incl. dense Jacobian',
    text='19,022 (thorough 121,369) programs over {add, mul, linear@} and 5 leaves sharing chain prefixes; at every grid point the original, the optimised and again the original operator agree with the reference in value, linearization value and dense Jacobian; domain/target identity; CPU-time limit detects non-termination. Three defects repaired.',
    note='2-pixel target space; point-wise functions only in leaves.',
    ref='DESIGN.md section for C05'),
 'C14': dict(
    engine='case-runner', level='exploration',
    technique='exhaustive configuration product (HPD system x rhs x start x preconditioner x controller kind x limit x nreset) with a recording controller proxy and a dense reference; Krylov-optimality of the first iterates',
    text='298,182 (thorough 1.67M) cases: every energy shown to the controller has value/gradient consistent with the position; CONVERGED only with the limit reached or the documented criterion true on the dense residual; no run beyond the limit; residual refresh every nreset steps; iterates are the Krylov minimisers; InversionEnabler in all four modes on every unit vector solves the system; QuadraticEnergy determined on a basis. One defect repaired, one recorded.',
    note='true residual accepted within 1e4*eps*(|b|+|A||x|); sizes <= 21 (40 thorough).',
    ref='DESIGN.md section for C14'),
 'C15': dict(
    engine='case-runner', level='exploration',
    technique='exhaustive product of stopping configurations x systems run on BOTH solvers (eager and jit-compiled), dense reference incl. a textbook CG locating the first non-positive curvature',
    text='368 (thorough 912) static call structures x 44,064 inner system/config runs: info==0 only with a criterion met (or exact solution) at nit>=miniter, stop at first opportunity, nit<=maxiter, Krylov-optimal iterate, eager/static agreement on x and on the verdict, convergence exactly at maxiter, maxiter=0; non-PD: failure reported when asked, else E(x)<=E(x0) and a steepest-descent step on first-direction negative curvature. Four defects repaired.',
    note='x compared at 1e-10 for kappa<=10, via energies for kappa=1e3; pytree (Vector) and flat layouts, n<=5 (8 thorough).',
    ref='DESIGN.md section for C15'),
 'C16': dict(
    engine='case-runner', level='exploration',
    technique='exhaustive products: direct line searches (energies x start grid x directions x parameters), minimiser runs, and ALL BFGS histories of length 7 over a 3-point alphabet compared with the dense BFGS recursion after every step',
    text='42,516 (thorough 843,299) cases: 81,378 successful line searches satisfy both strong-Wolfe inequalities computed from hand-written gradients; 74,898 accepted steps never increase the energy; status in {CONVERGED, ERROR}; L_BFGS and VL_BFGS directions equal the dense recursion and each other on 8,748 histories (wrap-around forced).',
    note='smooth energies without NaN/overflow; positive definite metrics for the Newton variants as documented.',
    ref='DESIGN.md section for C16'),
 'C17': dict(
    engine='case-runner', level='exploration',
    technique='exhaustive product objectives x start grid (incl. exact zero-curvature points) x maxiter x absdelta over four separate checks (eager, compiled, trust region, agreement) with numpy reference f,g,H',
    text='4,440 (thorough 31,100) cases: E(result)<=E(start) for all three minimisers; with g.H.g<0 a Newton-CG iteration steps along -g and lowers E whenever a trial length of the halving schedule does; eager and compiled agree on x and status class. Two defects repaired (plus the CG fallback shared with C15).',
    note='agreement demanded only where the Hessian is well conditioned at every iterate (exactly singular points are round-off ties).',
    ref='DESIGN.md section for C17'),
}
