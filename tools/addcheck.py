#!/venv/bin/python
"""tools/addcheck.py ID engine level 'technique' 'text' 'note' [ref]"""
import sys
p='/verif/tools/manifest_table.py'
pid, engine, level, technique, text, note = sys.argv[1:7]
ref = sys.argv[7] if len(sys.argv) > 7 else "DESIGN.md section for %s" % pid
s=open(p).read().rstrip()
assert s.endswith('}')
s=s[:-1]
s+=' %r: dict(\n    engine=%r, level=%r,\n    technique=%r,\n    text=%r,\n    note=%r,\n    ref=%r),\n}\n' % (pid, engine, level, technique, text, note, ref)
open(p,'w').write(s)
