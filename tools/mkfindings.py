#!/venv/bin/python
"""Regenerate DESIGN.md sections 11.1 / 11.2 (lists of repaired / recorded defects) from known_findings.json."""
import json, re
d = json.load(open("/verif/known_findings.json"))
p = "/verif/DESIGN.md"
s = open(p).read()
fx = sorted(d["fixed"], key=lambda e: e["property"])
kn = sorted(d["known"], key=lambda e: e["property"])
l1 = ["* %s `%s` — %s" % (e["property"], e["commit"], e["what"]) for e in fx]
l2 = ["* %s key `%s` — %s" % (e["property"], e["key"], e["what"]) for e in kn]
a = s.index("### 11.1 ")
b = s.index("### 11.2 ")
c = s.index("## 12. As-built")
h1 = s[a:].split("\n", 1)[0]
h2 = s[b:].split("\n", 1)[0]
s = s[:a] + h1 + "\n" + "\n".join(l1) + "\n\n" + h2 + "\n" + "\n".join(l2) + "\n\n" + s[c:]
open(p, "w").write(s)
print(len(l1), "fixed", len(l2), "known")
