#!/venv/bin/python
"""Regenerates the table of seeded (independently written) property-breaking changes in DESIGN.md section 8."""
import json, os, re
rows=[]
for d in sorted(os.listdir('/verif/seeded')):
    mp=os.path.join('/verif/seeded',d,'meta.json')
    if not os.path.exists(mp): continue
    m=json.load(open(mp))
    summ=(m.get('summary') or '').replace('|','/').replace('\n',' ')
    needs=(m.get('needs') or '').replace('|','/').replace('\n',' ')
    det=m.get('detected_by_check','?')
    rep=(m.get('check_report') or '').replace('|','/').replace('\n',' ')
    rows.append("| %s | %s | %s | %s | %s |" % (d, summ[:300], needs[:260], det, rep[:330]))
table="| seed | change (written by a fresh sub-agent that saw only the property text) | needs to manifest | detected | what the check reported / what had to be strengthened |\n|---|---|---|---|---|\n"+"\n".join(rows)
s=open('/verif/DESIGN.md').read()
start="<!-- SEEDTABLE-BEGIN -->"; end="<!-- SEEDTABLE-END -->"
block=start+"\n"+table+"\n"+end
if start in s:
    s=re.sub(re.escape(start)+".*?"+re.escape(end), lambda _: block, s, flags=re.S)
else:
    marker="## 9. Log of check corrections"
    i=s.index(marker)
    intro='''### 8.1 Independently seeded changes (as run)

Fresh sub-agents received only the property text (statement, quantifier, anchored file names) and a scratch
worktree; none saw /verif.  Each produced a change that keeps the existing tests green (the agents ran the test
files that exercise the touched code; where noted the coordinator re-ran them) plus a demonstration program.  The
coordinator confirmed every demonstration on /repo (exit 0) and on the patched tree (exit 1), ran the registered
quick check against the patched tree (`tools/tryseed.sh`), and kept everything under `seeded/<id>/`.  Where a
change was missed, the check was strengthened until it reports the change (and is still silent on /repo); those
rows say what was missing.

'''
    s=s[:i]+intro+block+"\n\n"+s[i:]
open('/verif/DESIGN.md','w').write(s)
print(len(rows),"rows")
