#!/bin/bash
# tools/confirmseed.sh <dir with patch.diff and demo.py> [pytest paths...]  -- demo on /repo (want 0) and on patched tree (want 1); optional tests on patched tree
D=$1; shift
WT=/tmp/wt_conf_$$
git -C /repo worktree add -q $WT HEAD || exit 3
git -C $WT apply $D/patch.diff || { echo "PATCH DOES NOT APPLY"; git -C /repo worktree remove --force $WT; exit 3; }
cd /tmp
PYTHONPATH=/repo timeout 900 /venv/bin/python $D/demo.py > /tmp/demo_u.log 2>&1; U=$?
PYTHONPATH=$WT timeout 900 /venv/bin/python $D/demo.py > /tmp/demo_c.log 2>&1; C=$?
echo "demo unchanged exit=$U changed exit=$C :: $(tail -1 /tmp/demo_c.log | cut -c1-200)"
if [ $# -gt 0 ]; then
  (cd $WT && PYTHONPATH=/tmp/stub:$WT timeout 1500 /venv/bin/python -m pytest -q -p no:cacheprovider --timeout=900 -n 4 "$@" 2>&1 | tail -1)
fi
git -C /repo worktree remove --force $WT
