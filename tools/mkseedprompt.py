#!/venv/bin/python
"""tools/mkseedprompt.py <wave> <ID> [<ID>...]  -> /tmp/seed<wave>_prompt_<IDs>.txt
Prompt for an independent sub-agent: property text only + one-line summaries of earlier seeded changes (so that it
picks a different site).  Nothing about /verif's checks is included."""
import glob, json, os, sys
wave = sys.argv[1]
ids = sys.argv[2:]
props = {json.loads(l)["id"]: json.loads(l) for l in open("/verif/properties.jsonl")}
head = open("/tmp/seed3_prompt_C23_C24_C25.txt").read().split("### Property")[0] if os.path.exists("/tmp/seed3_prompt_C23_C24_C25.txt") else None
if head is None:
    head = open("/verif/tools/seed_prompt_head.txt").read()
head = head.replace("seed3_", "seed%s_" % wave)
out = [head.rstrip() + "\n"]
for i in ids:
    p = props[i]
    out.append("### Property %s: %s\n%s\n(Quantified over: %s)\nRelevant source files: %s" % (
        i, p["title"], p["statement"], p["quantifier"]["text"], ", ".join(p["anchors"]["files"])))
    prev = []
    for d in sorted(glob.glob("/verif/seeded/%s*" % i)):
        try:
            prev.append(json.load(open(os.path.join(d, "meta.json"))).get("summary", ""))
        except Exception:
            pass
    prev = [x for x in prev if x]
    if prev:
        out.append("Earlier volunteers already used these changes, so choose a DIFFERENT site and mechanism (ideally a different function or file, and a different kind of circumstance):")
        out += ["- " + x for x in prev]
    out.append("")
fn = "/tmp/seed%s_prompt_%s.txt" % (wave, "_".join(ids))
open(fn, "w").write("\n".join(out))
print(fn)
