---------------------------- MODULE allreduce ----------------------------
(* Protocol model of nifty.cl.utilities.allreduce_sum (C23).

   K ranks hold an ordered partition `part` of n = Sum(part) summands
   (rank r holds part[r] consecutive ones; empty ranks allowed).  Every rank
   walks the same pair loop

       step = 1,2,4,.. < n ;  j = 0, 2 step, .. ;  partner j+step < n

   and derives its own action list from the owner map `who`:
       both on r        -> local add       (not a scheduling point)
       who[j]   = r     -> recv from who[j+step], add into slot j
       who[j+s] = r     -> send slot j+step to who[j]
   preceded by two collectives (allgather of the counts, allreduce of the
   types) and followed by two collectives (broadcast of the type and of the
   value held in slot 0 by who[0]).

   Trees are flat integer sequences in Polish notation: leaf i = <<i>>,
   node(l, r) = <<-1>> \o l \o r; the empty slot is << >>.  All state
   variables are nested tuples of integers so that the dumped state graph is
   trivially parseable by the conformance replayer (vf/tlabind.py).

   `ops[r]` counts the communication operations rank r has completed (the
   quantity the implementation-side scheduler observes).
   `last` is a history variable recording the transition just taken
   (<<kind, s, d>>, kind 1 = collective, 2 = rendezvous, 3 = buffered send
   completes, 4 = buffered receive), so that every edge of the dumped graph
   carries its full label.                                                  *)
EXTENDS Integers, Sequences, FiniteSets, TLC

CONSTANTS K,         \* number of ranks
          N,         \* maximal number of summands
          Buffered   \* FALSE: sends block until received (rendezvous); TRUE: FIFO channels

VARIABLES part, pc, ops, val, chan, res, last
vars == <<part, pc, ops, val, chan, res, last>>

Ranks == 1..K

RECURSIVE SumTo(_, _)
SumTo(p, r) == IF r = 0 THEN 0 ELSE p[r] + SumTo(p, r - 1)
Total(p) == SumTo(p, K)

Parts == {p \in [Ranks -> 0..N] : Total(p) \in 1..N}

\* owner of summand i (0-based), as the code derives it from the gathered counts
Who(p, i) == CHOOSE r \in Ranks : SumTo(p, r - 1) <= i /\ i < SumTo(p, r)

\* the pair loop, in program order
RECURSIVE JLoop(_, _, _), StepLoop(_, _)
JLoop(n, s, j) == IF j >= n THEN << >>
                  ELSE (IF j + s < n THEN << <<j, j + s>> >> ELSE << >>) \o JLoop(n, s, j + 2 * s)
StepLoop(n, s) == IF s >= n THEN << >> ELSE JLoop(n, s, 0) \o StepLoop(n, 2 * s)
Pairs(n) == StepLoop(n, 1)

\* action codes: <<0>> collective; <<1,a,b>> local add; <<2,peer,a>> recv into a; <<3,peer,b>> send slot b
Act(p, r, pr) ==
    LET a == pr[1]  b == pr[2]  wa == Who(p, a)  wb == Who(p, b) IN
    IF wa = r /\ wb = r THEN << <<1, a, b>> >>
    ELSE IF wa = r THEN << <<2, wb, a>> >>
    ELSE IF wb = r THEN << <<3, wa, b>> >>
    ELSE << >>

RECURSIVE Flat(_, _, _)
Flat(p, r, ps) == IF ps = << >> THEN << >> ELSE Act(p, r, Head(ps)) \o Flat(p, r, Tail(ps))

Prog(p, r) == << <<0>>, <<0>> >> \o Flat(p, r, Pairs(Total(p))) \o << <<0>>, <<0>> >>

Node(l, r) == <<-1>> \o l \o r

\* run the local adds of rank r starting at program index i; returns <<vals of r, new index>>
RECURSIVE RunLocal(_, _, _, _)
RunLocal(p, r, v, i) ==
    LET prog == Prog(p, r) IN
    IF i > Len(prog) THEN <<v, i>>
    ELSE IF prog[i][1] = 1
         THEN LET a == prog[i][2] + 1  b == prog[i][3] + 1 IN
              RunLocal(p, r, [v EXCEPT ![a] = Node(v[a], v[b]), ![b] = << >>], i + 1)
         ELSE <<v, i>>

InitVals(p, r) == [i \in 1..Total(p) |-> IF Who(p, i - 1) = r THEN <<i - 1>> ELSE << >>]

Init == /\ part \in Parts
        /\ pc = [r \in Ranks |-> 1]
        /\ ops = [r \in Ranks |-> 0]
        /\ val = [r \in Ranks |-> InitVals(part, r)]
        /\ chan = [s \in Ranks |-> [d \in Ranks |-> << >>]]
        /\ res = [r \in Ranks |-> << >>]
        /\ last = <<0, 0, 0>>

HeadAct(r) == IF pc[r] > Len(Prog(part, r)) THEN <<9>> ELSE Prog(part, r)[pc[r]]

\* a rank's index counts *communication* actions only from the scheduler's
\* point of view; local adds are folded into the preceding transition
Collective ==
    /\ \A r \in Ranks : HeadAct(r) = <<0>>
    /\ LET adv == [r \in Ranks |-> RunLocal(part, r, val[r], pc[r] + 1)]
           final == \A r \in Ranks : pc[r] = Len(Prog(part, r))
           root == Who(part, 0)
       IN /\ pc' = [r \in Ranks |-> adv[r][2]]
          /\ val' = [r \in Ranks |-> adv[r][1]]
          /\ res' = IF final THEN [r \in Ranks |-> val[root][1]] ELSE res
    /\ ops' = [r \in Ranks |-> ops[r] + 1]
    /\ UNCHANGED <<part, chan>>
    /\ last' = <<1, 0, 0>>

Rendezvous(s, d) ==
    /\ ~Buffered
    /\ s # d
    /\ HeadAct(s)[1] = 3 /\ HeadAct(s)[2] = d
    /\ HeadAct(d)[1] = 2 /\ HeadAct(d)[2] = s
    /\ LET b == HeadAct(s)[3] + 1
           a == HeadAct(d)[3] + 1
           vs == [val[s] EXCEPT ![b] = << >>]
           vd == [val[d] EXCEPT ![a] = Node(val[d][a], val[s][b])]
           as == RunLocal(part, s, vs, pc[s] + 1)
           ad == RunLocal(part, d, vd, pc[d] + 1)
       IN /\ val' = [val EXCEPT ![s] = as[1], ![d] = ad[1]]
          /\ pc' = [pc EXCEPT ![s] = as[2], ![d] = ad[2]]
    /\ ops' = [ops EXCEPT ![s] = @ + 1, ![d] = @ + 1]
    /\ UNCHANGED <<part, chan, res>>
    /\ last' = <<2, s, d>>

Snd(s, d) ==
    /\ Buffered
    /\ s # d
    /\ HeadAct(s)[1] = 3 /\ HeadAct(s)[2] = d
    /\ LET b == HeadAct(s)[3] + 1
           vs == [val[s] EXCEPT ![b] = << >>]
           as == RunLocal(part, s, vs, pc[s] + 1)
       IN /\ chan' = [chan EXCEPT ![s][d] = Append(@, val[s][b])]
          /\ val' = [val EXCEPT ![s] = as[1]]
          /\ pc' = [pc EXCEPT ![s] = as[2]]
    /\ ops' = [ops EXCEPT ![s] = @ + 1]
    /\ UNCHANGED <<part, res>>
    /\ last' = <<3, s, d>>

Rcv(s, d) ==
    /\ Buffered
    /\ s # d
    /\ HeadAct(d)[1] = 2 /\ HeadAct(d)[2] = s
    /\ chan[s][d] # << >>
    /\ LET a == HeadAct(d)[3] + 1
           vd == [val[d] EXCEPT ![a] = Node(val[d][a], Head(chan[s][d]))]
           ad == RunLocal(part, d, vd, pc[d] + 1)
       IN /\ chan' = [chan EXCEPT ![s][d] = Tail(@)]
          /\ val' = [val EXCEPT ![d] = ad[1]]
          /\ pc' = [pc EXCEPT ![d] = ad[2]]
    /\ ops' = [ops EXCEPT ![d] = @ + 1]
    /\ UNCHANGED <<part, res>>
    /\ last' = <<4, s, d>>

AllDone == \A r \in Ranks : pc[r] > Len(Prog(part, r))

Terminated == AllDone /\ UNCHANGED vars

Next == \/ Collective
        \/ \E s, d \in Ranks : Rendezvous(s, d) \/ Snd(s, d) \/ Rcv(s, d)
        \/ Terminated

Spec == Init /\ [][Next]_vars

\* ---- the fixed pairwise summation tree of the single-process code
RECURSIVE T(_, _, _)
T(n, j, s) == IF s = 1 THEN <<j>>
              ELSE LET h == s \div 2 IN
                   IF j + h < n THEN Node(T(n, j, h), T(n, j + h, h)) ELSE T(n, j, h)
RECURSIVE Pow2Geq(_, _)
Pow2Geq(n, s) == IF s >= n THEN s ELSE Pow2Geq(n, 2 * s)
FixedTree(n) == T(n, 0, Pow2Geq(n, 1))

ResultInv == AllDone => /\ \A r \in Ranks : res[r] = FixedTree(Total(part))
                        /\ \A s, d \in Ranks : chan[s][d] = << >>

\* every value is held by exactly one place (no summand lost or duplicated)
RECURSIVE Leaves(_)
Leaves(t) == IF t = << >> THEN 0 ELSE (IF Head(t) >= 0 THEN 1 ELSE 0) + Leaves(Tail(t))
RECURSIVE SumSeq(_, _)
SumSeq(f, i) == IF i = 0 THEN 0 ELSE f[i] + SumSeq(f, i - 1)
ChanLeaves(s, d) == SumSeq([m \in 1..Len(chan[s][d]) |-> Leaves(chan[s][d][m])], Len(chan[s][d]))
Conservation ==
    LET n == Total(part)
        held == SumSeq([r \in Ranks |-> SumSeq([i \in 1..n |-> Leaves(val[r][i])], n)], K)
        inflight == SumSeq([x \in 1..(K * K) |-> ChanLeaves(((x - 1) \div K) + 1, ((x - 1) % K) + 1)], K * K)
    IN held + inflight = n
=============================================================================
